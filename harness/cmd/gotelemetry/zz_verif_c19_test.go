//go:build verif

package main

// C19 — gotelemetry mode commands and clean touch exactly what they promise.
// E3 over directory contents (subsets of a pool of names matching and nearly
// matching the data-file patterns, in local/, upload/, the root and debug/)
// and E2 over command sequences, calling the real runClean / runOn / runLocal
// / runOff / runEnv in-process with telemetry.Default pointed at a fresh
// directory; a conformance leg replays depth-1 cases through the really built
// gotelemetry binary with the user config directory redirected.

import (
	"fmt"
	"os"
	"os/exec"
	"path/filepath"
	"sort"
	"strings"
	"testing"
	"time"

	"golang.org/x/telemetry/internal/telemetry"
	"golang.org/x/telemetry/internal/verifshim/ref"
	"golang.org/x/telemetry/internal/verifshim/vrep"
)

var zzvPool = []string{"p@v1.0.0-go1.21.0-linux-amd64-2024-01-01.v1.count", "x.v1.count", ".v1.count", "x.v2.count", "x.v1.count.bak", "xv1.count", "x.v1.counts",
	"2024-01-07.json", "local.2024-01-07.json", "x.json", ".json", "x.json.lock", "xjson", "x.JSON", "weekends", "upload.token", "mode",
	// sub-directories (trailing slash) named like data files: an empty one, and one holding a file
	"sub.json/", "sub.v1.count/inner.json",
	// symbolic links (trailing @) named like data files, pointing at a regular file in the root: the uploader
	// and the viewer read through them, so they are data files; clean removes the link, never the target
	"ln.v1.count@", "ln.json@"}

func zzvIsData(dir, name string) bool {
	switch dir {
	case "local":
		return strings.HasSuffix(name, ".v1.count") || strings.HasSuffix(name, ".json")
	case "upload":
		return strings.HasSuffix(name, ".json")
	}
	return false
}

type zzvTree map[string][]string // dir ("", local, upload, debug) -> file names

func zzvPopulate(root string, tree zzvTree, mode string) {
	os.MkdirAll(root, 0o777)
	for dir, names := range tree {
		d := filepath.Join(root, dir)
		os.MkdirAll(d, 0o777)
		for _, n := range names {
			if strings.HasSuffix(n, "/") {
				os.MkdirAll(filepath.Join(d, n), 0o777)
				continue
			}
			if strings.HasSuffix(n, "@") {
				os.Symlink(filepath.Join(root, "x.json"), filepath.Join(d, strings.TrimSuffix(n, "@")))
				continue
			}
			os.MkdirAll(filepath.Dir(filepath.Join(d, n)), 0o777)
			os.WriteFile(filepath.Join(d, n), []byte("content of "+dir+"/"+n), 0o666)
		}
	}
	switch mode {
	case "<absent>":
	default:
		os.WriteFile(filepath.Join(root, "mode"), []byte(mode), 0o666)
	}
}

func zzvSilence() func() {
	old, oldOut := os.Stderr, os.Stdout
	null, _ := os.OpenFile(os.DevNull, os.O_WRONLY, 0)
	os.Stderr, os.Stdout = null, null
	return func() { os.Stderr, os.Stdout = old, oldOut; null.Close() }
}

// zzvRun executes one command in-process.
func zzvRun(cmd string) (panicked any) {
	defer func() { panicked = recover() }()
	defer zzvSilence()()
	switch cmd {
	case "on":
		runOn(nil)
	case "local":
		runLocal(nil)
	case "off":
		runOff(nil)
	case "clean":
		runClean(nil)
	case "env":
		runEnv(nil)
	case "lib-on":
		telemetry.Default.SetMode("on")
	case "lib-bogus":
		telemetry.Default.SetMode("bogus")
	}
	return nil
}

// zzvExpect applies the documented effect of a command to a snapshot model.
// model: relative path -> content marker; returns the expected mode token.
func zzvCheckStep(fail func(sig, format string, args ...any), cmd string, before, after ref.Snap, modeBefore string) {
	diff := before.Diff(after)
	today1 := time.Now().UTC().Format("2006-01-02")
	switch cmd {
	case "clean":
		for _, d := range diff {
			kind, path, _ := strings.Cut(d, " ")
			dir, name := filepath.Split(path)
			dir = strings.TrimSuffix(dir, "/")
			if kind != "removed" || !zzvIsData(dir, name) || !(strings.HasPrefix(before[path], "file:") || strings.HasPrefix(before[path], "other:L")) {
				fail("clean-touched-other", "clean: %s (was %.12s)", d, before[path])
			}
		}
		for path, v := range before {
			dir, name := filepath.Split(path)
			dir = strings.TrimSuffix(dir, "/")
			if zzvIsData(dir, name) && (strings.HasPrefix(v, "file:") || strings.HasPrefix(v, "other:L")) {
				if _, still := after[path]; still {
					fail("clean-left-data", "clean left %s behind", path)
				}
			}
		}
	case "env":
		if len(diff) > 0 {
			fail("env-changed", "env changed the directory: %v", diff)
		}
	case "on", "local", "off", "lib-on", "lib-bogus":
		want := strings.TrimPrefix(cmd, "lib-")
		for _, d := range diff {
			if !strings.HasSuffix(d, " mode") {
				fail("mode-command-touched-other", "%s: %s", cmd, d)
			}
		}
		tok, date, dated := strings.Cut(strings.TrimSpace(modeBefore), " ")
		if _, err := time.Parse("2006-01-02", strings.TrimSpace(date)); dated && err != nil && tok == "on" {
			tok = "local" // "on" since an unreadable date is not "on": the mode is the default, local
		}
		if _, had := before["mode"]; !had {
			tok = "local" // without a mode file the mode is the default, local
		}
		data, _ := os.ReadFile(filepath.Join(telemetry.Default.Dir(), "mode"))
		switch {
		case cmd == "lib-bogus":
			if len(diff) > 0 {
				fail("invalid-mode-changed-file", "SetMode(bogus) changed %v", diff)
			}
		case cmd != "lib-on" && tok == want && modeBefore == strings.TrimSpace(modeBefore):
			if len(diff) > 0 {
				fail("mode-rewritten-although-unchanged", "%s with mode file %q already %s: %v", cmd, modeBefore, want, diff)
			}
		default:
			got := string(data)
			today2 := time.Now().UTC().Format("2006-01-02")
			if got != want+" "+today1 && got != want+" "+today2 {
				fail("mode-not-recorded", "%s: mode file is %q, want %q", cmd, got, want+" "+today2)
			}
			if m, d := telemetry.Default.Mode(); m != want || (d.Format("2006-01-02") != today1 && d.Format("2006-01-02") != today2) {
				fail("mode-readback", "%s: library reads back (%q, %s)", cmd, m, d.Format("2006-01-02"))
			}
		}
	}
}

func TestVerifC19(t *testing.T) {
	p := vrep.Env()
	res := vrep.New("C19", p)
	defer res.Guard()
	base, _ := vrep.Scratch("c19")
	res.Rule = "E3: every subset of size <= 2 (thorough 3) of a 21-name pool (data files, near misses, weekends, token, lock, sub-directories and symbolic links named like data files) in local/ x every subset of size <= 1 (2) in upload/, with fixed near-miss files in the root and debug/, then clean; E2: every command sequence of length <= 3 over {on, local, off, clean, env, library SetMode(on), SetMode(bogus)} from 8 mode-file states (incl. dates that cannot be read); conformance: depth-1 cases replayed through the built gotelemetry binary; classes = (files removed, mode transitions)"
	res.Assumptions = []string{"the date is today's (UTC) at the time of the call"}
	subsets := func(max int) [][]string {
		var out [][]string
		var gen func(start int, cur []string)
		gen = func(start int, cur []string) {
			out = append(out, append([]string{}, cur...))
			if len(cur) == max {
				return
			}
			for i := start; i < len(zzvPool); i++ {
				gen(i+1, append(cur, zzvPool[i]))
			}
		}
		gen(0, nil)
		return out
	}
	nl, nu := 2, 1
	if p.Thorough() {
		nl, nu = 3, 2
	}
	idx := 0
	fixedRoot := []string{"x.json", "x.v1.count", "weekends"}
	fixedDebug := []string{"prog-devel-go1.21-20240101-1.log", "x.json", "y.v1.count"}
	for _, ls := range subsets(nl) {
		for _, us := range subsets(nu) {
			idx++
			if !p.Mine(idx) {
				continue
			}
			root, _ := os.MkdirTemp(base, "t")
			tree := zzvTree{"": fixedRoot, "local": ls, "upload": us, "debug": fixedDebug}
			zzvPopulate(root, tree, "on 2024-01-01")
			telemetry.Default = telemetry.NewDir(root)
			before := ref.Snapshot(root)
			pan := zzvRun("clean")
			after := ref.Snapshot(root)
			res.Evaluations++
			desc := fmt.Sprintf("local=%v upload=%v", ls, us)
			fail := func(sig, format string, args ...any) {
				res.Violate(sig, fmt.Sprintf(format, args...)+" ["+desc+"]", map[string]any{"local": ls, "upload": us})
			}
			if pan != nil {
				fail("command-panic", "clean panicked: %v", pan)
			}
			zzvCheckStep(fail, "clean", before, after, "on 2024-01-01")
			res.Class(fmt.Sprintf("clean/removed=%d", len(before.Diff(after))))
			if res.Evaluations%300 == 1 {
				res.Sample(5, map[string]any{"leg": "clean", "local": ls, "upload": us, "removed": before.Diff(after)})
			}
			os.RemoveAll(root)
		}
	}
	// Directory-absent variants.
	if p.Mine(0) {
		for _, missing := range []string{"local", "upload", "both", "root"} {
			root, _ := os.MkdirTemp(base, "m")
			tree := zzvTree{"local": {"x.v1.count", "keep"}, "upload": {"2024-01-07.json"}}
			zzvPopulate(root, tree, "local")
			switch missing {
			case "local", "upload":
				os.RemoveAll(filepath.Join(root, missing))
			case "both":
				os.RemoveAll(filepath.Join(root, "local"))
				os.RemoveAll(filepath.Join(root, "upload"))
			case "root":
				os.RemoveAll(root)
			}
			telemetry.Default = telemetry.NewDir(root)
			before := ref.Snapshot(root)
			pan := zzvRun("clean")
			after := ref.Snapshot(root)
			res.Evaluations++
			fail := func(sig, format string, args ...any) {
				res.Violate(sig, fmt.Sprintf(format, args...)+" [missing "+missing+"]", nil)
			}
			if pan != nil {
				fail("command-panic", "clean panicked: %v", pan)
			}
			zzvCheckStep(fail, "clean", before, after, "local")
			res.Class("clean/missing-" + missing)
			os.RemoveAll(root)
		}
	}
	// E2: command sequences.
	cmds := []string{"on", "local", "off", "clean", "env", "lib-on", "lib-bogus"}
	modes := []string{"<absent>", "on 2024-01-01", "off 2024-01-01", "local", "garbage", "on", "on 2024-13-45", "off 2024-13-45"}
	var seqs [][]string
	var gen func(cur []string)
	gen = func(cur []string) {
		if len(cur) > 0 {
			seqs = append(seqs, append([]string{}, cur...))
		}
		if len(cur) == 3 {
			return
		}
		for _, c := range cmds {
			gen(append(cur, c))
		}
	}
	gen(nil)
	for _, mode := range modes {
		for _, seq := range seqs {
			idx++
			if !p.Mine(idx) {
				continue
			}
			root, _ := os.MkdirTemp(base, "s")
			tree := zzvTree{"": {"weekends-x"}, "local": {"a.v1.count", "2024-01-07.json", "weekends", "upload.token", "x.v2.count"}, "upload": {"2024-01-07.json", "2024-01-07.json.lock"}, "debug": {"a.log"}}
			zzvPopulate(root, tree, mode)
			telemetry.Default = telemetry.NewDir(root)
			desc := fmt.Sprintf("mode=%q commands=%v", mode, seq)
			fail := func(sig, format string, args ...any) {
				res.Violate(sig, fmt.Sprintf(format, args...)+" ["+desc+"]", map[string]any{"mode": mode, "commands": seq})
			}
			for _, c := range seq {
				mb, _ := os.ReadFile(filepath.Join(root, "mode"))
				before := ref.Snapshot(root)
				pan := zzvRun(c)
				after := ref.Snapshot(root)
				res.Transitions++
				if pan != nil {
					fail("command-panic", "%s panicked: %v", c, pan)
					break
				}
				zzvCheckStep(fail, c, before, after, string(mb))
			}
			res.Evaluations++
			m, _ := telemetry.Default.Mode()
			res.Class(fmt.Sprintf("seq/len=%d/final=%s", len(seq), m))
			os.RemoveAll(root)
		}
	}
	// Conformance: the real binary.
	if p.Mine(1) || p.NShards == 1 {
		zzvC19Binary(res, base)
	}
	res.States = res.Evaluations
	if res.Transitions == 0 {
		res.Transitions = res.Evaluations
	}
	res.Write()
}

func zzvC19Binary(res *vrep.Result, base string) {
	bin := filepath.Join(base, "gotelemetry")
	build := exec.Command("go", "build", "-o", bin, "golang.org/x/telemetry/cmd/gotelemetry")
	build.Env = append(os.Environ(), "GOFLAGS=-mod=mod", "GOPROXY=off", "GOSUMDB=off", "GOTOOLCHAIN=local")
	if out, err := build.CombinedOutput(); err != nil {
		res.Note("conformance leg skipped: cannot build gotelemetry: %v %s", err, out)
		return
	}
	cases := []struct {
		cmd  string
		mode string
	}{{"clean", "on 2024-01-01"}, {"on", "<absent>"}, {"on", "on 2024-01-01"}, {"off", "on 2024-01-01"}, {"local", "off 2024-01-01"}, {"local", "local"}, {"off", "garbage"}, {"env", "local 2024-02-02"}, {"clean", "<absent>"}}
	for _, c := range cases {
		for _, ls := range [][]string{{}, {"x.v1.count", "x.json", "weekends", "x.v2.count"}, {".v1.count", "x.json.lock", "upload.token"}} {
			var snaps [2]ref.Snap
			for variant := 0; variant < 2; variant++ {
				cfgHome, _ := os.MkdirTemp(base, "cfg")
				root := filepath.Join(cfgHome, "go", "telemetry")
				zzvPopulate(root, zzvTree{"local": ls, "upload": {"2024-01-07.json", "keep.txt"}}, c.mode)
				if variant == 0 {
					telemetry.Default = telemetry.NewDir(root)
					zzvRun(c.cmd)
				} else {
					cmd := exec.Command(bin, c.cmd)
					cmd.Env = append(os.Environ(), "XDG_CONFIG_HOME="+cfgHome, "HOME="+cfgHome)
					cmd.Run()
				}
				snaps[variant] = ref.Snapshot(root)
				os.RemoveAll(cfgHome)
			}
			res.Evaluations++
			res.Validated++
			if d := snaps[0].Diff(snaps[1]); len(d) > 0 {
				var keys []string
				for _, k := range d {
					keys = append(keys, k)
				}
				sort.Strings(keys)
				res.Violate("binary-differs-from-in-process", fmt.Sprintf("gotelemetry %s (mode %q, local %v): built binary and in-process call leave different directories: %v", c.cmd, c.mode, ls, keys), nil)
			}
			res.Class("binary/" + c.cmd)
		}
	}
}
