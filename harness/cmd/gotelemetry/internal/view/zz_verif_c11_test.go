//go:build verif

package view

// C11, stage 1 — uploader and local viewer on the same data.
// For every (configuration, X, set of local files) case the real viewer
// (files -> newCounterFile, summary) and the real uploader (upload.Run) are
// run on the same directory. Their verdicts are compared here; the case, the
// uploader's report and single-item mutations of it are written to a JSONL
// file for stage 2 (the real upload handler, package main of telemetrygodev).

import (
	"encoding/json"
	"fmt"
	"os"
	"path/filepath"
	"strings"
	"testing"
	"time"

	"golang.org/x/telemetry/internal/config"
	"golang.org/x/telemetry/internal/telemetry"
	"golang.org/x/telemetry/internal/verifshim/ref"
	"golang.org/x/telemetry/internal/verifshim/ufix"
	"golang.org/x/telemetry/internal/verifshim/vhttp"
	"golang.org/x/telemetry/internal/verifshim/vrep"
)

// zzvStage is one record handed to stage 2.
type zzvStage struct {
	Case     string                  `json:"case"`
	Config   *telemetry.UploadConfig `json:"config"`
	Body     []byte                  `json:"body"`     // the uploader's request body, nil if none
	Expect   string                  `json:"expect"`   // accept | reject
	Why      string                  `json:"why"`
}

func zzvC11Configs(thorough bool) map[string]*telemetry.UploadConfig {
	mk := func(goos, goarch, govers []string, progs ...*telemetry.ProgramConfig) *telemetry.UploadConfig {
		return &telemetry.UploadConfig{GOOS: goos, GOARCH: goarch, GoVersion: govers, SampleRate: 1, Programs: progs}
	}
	p1 := func(counters, stacks []string) *telemetry.ProgramConfig {
		pc := &telemetry.ProgramConfig{Name: "example.com/p1", Versions: []string{"v1.0.0", "v1.1.0"}}
		for _, c := range counters {
			pc.Counters = append(pc.Counters, telemetry.CounterConfig{Name: c, Rate: 1})
		}
		for _, s := range stacks {
			pc.Stacks = append(pc.Stacks, telemetry.CounterConfig{Name: s, Rate: 1, Depth: 5})
		}
		return pc
	}
	p2 := &telemetry.ProgramConfig{Name: "cmd/go", Versions: []string{"go1.21.0"}, Counters: []telemetry.CounterConfig{{Name: "c", Rate: 1}}}
	p2e := &telemetry.ProgramConfig{Name: "cmd/go", Versions: []string{"go1.21.0"}, Counters: []telemetry.CounterConfig{{Name: "e", Rate: 1}, {Name: "f:{x,y}", Rate: 1}}, Stacks: []telemetry.CounterConfig{{Name: "t", Rate: 1, Depth: 3}}}
	out := map[string]*telemetry.UploadConfig{
		"two-programs-different-counters": mk([]string{"linux"}, []string{"amd64"}, []string{"go1.21.0"}, p1([]string{"c", "d:{a,b}"}, []string{"s"}), p2e),
		// g and h: only buckets are configured; the data has another bucket of g and the bare name h
		"basic":       mk([]string{"linux"}, []string{"amd64"}, []string{"go1.21.0"}, p1([]string{"c", "d:{a,b}", "g:{a,b}", "h:{a}"}, []string{"s"})),
		"two-os":      mk([]string{"linux", "darwin"}, []string{"amd64", "arm64"}, []string{"go1.21.0", "go1.22.0"}, p1([]string{"c"}, []string{"s", "c"}), p2),
		"no-stacks":   mk([]string{"linux"}, []string{"amd64"}, []string{"go1.21.0"}, p1([]string{"c:{a}", "s"}, nil)),
		// one program described by two entries: its versions, counters and stacks are those of both
		"program-listed-twice": mk([]string{"linux"}, []string{"amd64"}, []string{"go1.21.0"}, &telemetry.ProgramConfig{Name: "example.com/p1", Versions: []string{"v1.0.0"}, Counters: []telemetry.CounterConfig{{Name: "c", Rate: 1}}}, &telemetry.ProgramConfig{Name: "example.com/p1", Versions: []string{"v1.1.0"}, Counters: []telemetry.CounterConfig{{Name: "d:{a,b}", Rate: 1}}, Stacks: []telemetry.CounterConfig{{Name: "s", Rate: 1, Depth: 5}}}),
		"no-programs": mk([]string{"linux"}, []string{"amd64"}, []string{"go1.21.0"}),
		// a name configured as the other kind than the data's: stack "u" vs counter u, counter "v" vs stack v
		"kinds-crossed": mk([]string{"linux"}, []string{"amd64"}, []string{"go1.21.0"}, p1([]string{"c", "v"}, []string{"s", "u"})),
	}
	if thorough {
		out["empty-os-lists"] = mk(nil, nil, []string{"go1.21.0"}, p1([]string{"c"}, []string{"s"}))
		out["only-stacks"] = mk([]string{"linux"}, []string{"amd64"}, []string{"go1.21.0"}, p1(nil, []string{"s"}))
	}
	return out
}

var zzvC11OK = ref.Build{"example.com/p1", "v1.0.0", "go1.21.0", "linux", "amd64"}

func zzvC11Builds() map[string]ref.Build {
	return map[string]ref.Build{
		"approved":       zzvC11OK,
		"other-program":  {"example.com/p9", "v1.0.0", "go1.21.0", "linux", "amd64"},
		"other-version":  {"example.com/p1", "v9.0.0", "go1.21.0", "linux", "amd64"},
		"other-go":       {"example.com/p1", "v1.0.0", "go1.99.0", "linux", "amd64"},
		"other-goos":     {"example.com/p1", "v1.0.0", "go1.21.0", "plan9", "amd64"},
		"other-goarch":   {"example.com/p1", "v1.0.0", "go1.21.0", "linux", "riscv64"},
		"second-version": {"example.com/p1", "v1.1.0", "go1.21.0", "linux", "amd64"},
		"toolchain":      {"cmd/go", "go1.21.0", "go1.21.0", "linux", "amd64"},
	}
}

// zzvC11Bucketed: chart names under which bucketed counters (name:bucket) are drawn; their in-config flag is
// per prefix, coarser than the uploader's per-bucket verdict, so only "sent => flagged present" is required.
var zzvC11Bucketed = map[string]bool{"c": true, "d": true, "f": true}

var zzvC11Names = []string{"g:z", "h", "u", "v\nmain.f:+1,+0x1", "c", "c:a", "d:a", "d:c", "d", "zz", "e", "f:x", "s", "s\nmain.f:+1,+0x1", "t\nmain.f:+1,+0x1", "c\nmain.f:+1,+0x1", "s\nmain.g:+2,+0x2\nmain.f:+1,+0x1"}

func TestVerifC11View(t *testing.T) {
	p := vrep.Env()
	res := vrep.New("C11", p)
	defer res.Guard()
	base, _ := vrep.Scratch("c11v")
	res.Rule = "stage 1: configurations (GOOS/GOARCH/Go-version lists, bucketed counters, stacks incl. a stack named like a counter) x X in {2^-52, 0.5, 0} x file sets (the approved build and every build differing from it in exactly one of the five fields, each with approved / unapproved / bucket-near-miss counters and stacks with approved / unapproved / counter-named heads): the real viewer (counter-file view, pending-report summaries, chart flags) and the real uploader run on the same directory and their verdicts are compared item by item; classes = (build kind, verdict pairs)"
	res.Assumptions = []string{"all rates are 1 so that sampling does not enter (the viewer cannot know X)", "stage 2 replays every uploader report and single-item mutations through the real upload handler"}
	stageDir := os.Getenv("VERIF_SCRATCH")
	if stageDir == "" {
		stageDir = base
	}
	out, err := os.Create(filepath.Join(stageDir, fmt.Sprintf("c11-stage1-%d.jsonl", p.Shard)))
	if err != nil {
		panic(err)
	}
	enc := json.NewEncoder(out)
	begin, end := time.Date(2024, 1, 3, 0, 0, 0, 0, time.UTC), time.Date(2024, 1, 7, 0, 0, 0, 0, time.UTC)
	start := time.Date(2024, 1, 10, 12, 0, 0, 0, time.UTC)
	idx := 0
	cfgs := zzvC11Configs(p.Thorough())
	builds := zzvC11Builds()
	for cname, ucfg := range cfgs {
		for _, x := range []float64{2.220446049250313e-16, 0.5, 0} {
			for bname, b := range builds {
				idx++
				if !p.Mine(idx) {
					continue
				}
				cs := fmt.Sprintf("config=%s X=%g build=%s", cname, x, bname)
				fail := func(sig, format string, args ...any) {
					res.Violate(sig, fmt.Sprintf(format, args...)+" ["+cs+"]", map[string]any{"case": cs})
				}
				d := ufix.New(base)
				d.SetModeRaw("on 2020-01-01")
				counts := map[string]uint64{}
				for i, n := range zzvC11Names {
					counts[n] = uint64(i + 1)
				}
				d.WriteCount(b, begin, end, counts)
				// The approved build is always present too, so that a report is produced.
				if bname != "approved" {
					// (with stacks whose approval differs between the two programs of a configuration)
					d.WriteCount(zzvC11OK, begin, end, map[string]uint64{"c": 1, "s\nmain.f:+1,+0x1": 2, "t\nmain.f:+1,+0x1": 3, "e": 4})
				}
				ufix.Install(ucfg, "v1.2.3", x)
				cfg := config.NewConfig(ucfg)
				vfiles, verr := files(d.TD.LocalDir(), cfg)
				if verr != nil {
					fail("viewer-failed", "files: %v", verr)
				}
				// The viewer's other two descriptions of the same data: the pending-report summaries and
				// the chart flags ("... is not present in the telemetry config").
				pend := pending(vfiles, cfg)
				chs, cerr := charts(pend, cfg)
				if cerr != nil {
					fail("viewer-failed", "charts: %v", cerr)
				}
				rerr, pan := d.Run(start)
				res.Evaluations++
				res.Transitions++
				if rerr != nil || pan != nil {
					fail("uploader-failed", "err=%v panic=%v", rerr, pan)
					d.Close()
					continue
				}
				var rep telemetry.Report
				var body []byte
				if len(vhttp.Log) == 1 {
					body = vhttp.Log[0].Body
					json.Unmarshal(body, &rep)
				} else if len(vhttp.Log) > 1 {
					fail("post-count", "%d requests", len(vhttp.Log))
				}
				uploaded := map[string]bool{} // build|name
				inReport := map[ref.Build]bool{}
				for _, pr := range rep.Programs {
					bb := ref.Build{pr.Program, pr.Version, pr.GoVersion, pr.GOOS, pr.GOARCH}
					inReport[bb] = true
					for n := range pr.Counters {
						uploaded[fmt.Sprint(bb)+"|"+n] = true
					}
					for n := range pr.Stacks {
						uploaded[fmt.Sprint(bb)+"|"+n] = true
					}
				}
				// Viewer vs uploader.
				for _, vf := range vfiles {
					vb := ref.Build{vf.Meta["Program"], vf.Meta["Version"], vf.Meta["GoVersion"], vf.Meta["GOOS"], vf.Meta["GOARCH"]}
					setExcluded := strings.Contains(string(vf.Summary), "No data from this set would be uploaded")
					metaActive := vf.ActiveMeta["Program"] && vf.ActiveMeta["Version"] && vf.ActiveMeta["GOOS"] && vf.ActiveMeta["GOARCH"] && vf.ActiveMeta["GoVersion"]
					if body != nil {
						if setExcluded == inReport[vb] {
							fail("viewer-set-verdict", "viewer says data set of build %v excluded=%v, uploader put it in the report=%v", vb, setExcluded, inReport[vb])
						}
						if metaActive != inReport[vb] {
							fail("viewer-meta-flags", "viewer marks all metadata of build %v as registered=%v, uploader put it in the report=%v", vb, metaActive, inReport[vb])
						}
					}
					if !inReport[vb] {
						res.Class("viewer/" + bname + "/set-excluded")
						continue
					}
					// The summary lists labels (a counter's name, a stack's head); a label
					// must be listed iff some item carrying it was left out by the uploader.
					excludedLabel := map[string]bool{}
					labels := map[string]bool{}
					for _, c := range vf.Counts {
						up := uploaded[fmt.Sprint(vb)+"|"+c.Name]
						if c.Active != up {
							fail("viewer-counter-verdict", "viewer marks counter %q active=%v, uploader uploaded it=%v", c.Name, c.Active, up)
						}
						labels[c.Name] = true
						if !up {
							excludedLabel[c.Name] = true
						}
					}
					for _, s := range vf.Stacks {
						full := s.Name + "\n" + s.Trace
						up := uploaded[fmt.Sprint(vb)+"|"+full]
						if s.Active != up {
							fail("viewer-stack-verdict", "viewer marks stack %q active=%v, uploader uploaded it=%v", s.Name, s.Active, up)
						}
						labels[s.Name] = true
						if !up {
							excludedLabel[s.Name] = true
						}
					}
					for l := range labels {
						listed := strings.Contains(string(vf.Summary), "<code>"+l+"</code>")
						if listed != excludedLabel[l] {
							fail("viewer-summary-counter", "viewer summary lists %q as excluded=%v, the uploader left out an item with that name=%v", l, listed, excludedLabel[l])
						}
					}
					res.Class("viewer/" + bname + "/compared")
				}
				// Pending reports: the per-program summary must name exactly the labels the uploader left out
				// (counters and stacks alike) and declare the set excluded exactly when the build is.
				for _, pr := range pend {
					for _, pp := range pr.Programs {
						vb := ref.Build{pp.Program, pp.Version, pp.GoVersion, pp.GOOS, pp.GOARCH}
						if body == nil {
							continue
						}
						setExcluded := strings.Contains(string(pp.Summary), "No data from this set would be uploaded")
						if setExcluded == inReport[vb] {
							fail("viewer-report-set-verdict", "pending report: viewer says data of build %v excluded=%v, uploader put it in the report=%v", vb, setExcluded, inReport[vb])
						}
						if !inReport[vb] {
							continue
						}
						excl, labels := map[string]bool{}, map[string]bool{}
						for n := range pp.Counters {
							labels[n] = true
							if !uploaded[fmt.Sprint(vb)+"|"+n] {
								excl[n] = true
							}
						}
						for n := range pp.Stacks {
							head, _, _ := strings.Cut(n, "\n")
							labels[head] = true
							if !uploaded[fmt.Sprint(vb)+"|"+n] {
								excl[head] = true
							}
						}
						for l := range labels {
							listed := strings.Contains(string(pp.Summary), "<code>"+l+"</code>")
							if listed != excl[l] {
								fail("viewer-report-summary", "pending report of build %v: summary lists %q as excluded=%v, the uploader left out an item with that name=%v", vb, l, listed, excl[l])
							}
						}
						res.Class("viewer-report/" + bname)
					}
				}
				// Charts: a chart is keyed by the counter name up to ':' or by the stack's head. Data the
				// uploader sent must never be flagged as absent from the config; for names without buckets
				// in the approved build the flag must agree with the uploader both ways.
				if chs != nil && body != nil {
					upChart := map[string]bool{} // program|chart
					upProg := map[string]bool{}
					for k := range uploaded {
						bld, n, _ := strings.Cut(k, "|")
						prog := strings.Fields(strings.Trim(bld, "{}"))[0]
						head, _, isStack := strings.Cut(n, "\n")
						if !isStack {
							head, _, _ = strings.Cut(n, ":")
						}
						upChart[prog+"|"+head] = true
						upProg[prog] = true
					}
					for _, cp := range chs.Programs {
						if upProg[cp.Name] && !cp.Active {
							fail("viewer-chart-program", "chart of program %q flagged as not in the config although the uploader sent its data", cp.Name)
						}
						for _, cc := range cp.Counters {
							up := upChart[cp.Name+"|"+cc.Name]
							if up && !cc.Active {
								fail("viewer-chart-verdict", "chart %q of %q flagged as not in the config although the uploader sent data of that name", cc.Name, cp.Name)
							}
							// (both ways only where the build that carries all names was itself uploaded: a
							// configuration can list a name and still exclude every build, e.g. by empty OS lists)
							if bname == "approved" && inReport[zzvC11OK] && cp.Name == zzvC11OK.Program && cc.Active != up {
								fail("viewer-chart-verdict", "chart %q of %q: in-config flag=%v, uploader sent data of that name=%v", cc.Name, cp.Name, cc.Active, up)
							}
						}
					}
					res.Class("viewer-charts/" + bname)
				}
				// Hand over to stage 2.
				if body != nil {
					enc.Encode(zzvStage{Case: cs, Config: ucfg, Body: body, Expect: "accept", Why: "report produced by the uploader under this configuration"})
				}
				if res.Evaluations%15 == 1 {
					res.Sample(6, map[string]any{"case": cs, "request_bytes": len(body), "builds_in_report": len(rep.Programs)})
				}
				d.Close()
			}
		}
	}
	// One more body of local data: many distinct deep stacks of an approved stack counter, every record
	// within the 4 KiB name limit. The uploader's report is handed to stage 2 like the others.
	if p.Mine(0) {
		ucfg := cfgs["basic"]
		d := ufix.New(base)
		d.SetModeRaw("on 2020-01-01")
		counts := map[string]uint64{"c": 1}
		for i := 0; i < 120; i++ {
			n := "s"
			for f := 0; f < 16; f++ {
				n += fmt.Sprintf("\nexample.com/p1/internal/some/package%d.(*Type).method%d:+%d,+0x%x", f, i, f+1, 16*f+i)
			}
			counts[n] = uint64(i + 1)
		}
		d.WriteCount(zzvC11OK, begin, end, counts)
		ufix.Install(ucfg, "v1.2.3", 0.5)
		rerr, pan := d.Run(start)
		res.Evaluations++
		res.Transitions++
		if rerr != nil || pan != nil || len(vhttp.Log) != 1 {
			res.Violate("uploader-failed", fmt.Sprintf("large data set: err=%v panic=%v requests=%d", rerr, pan, len(vhttp.Log)), nil)
		} else {
			enc.Encode(zzvStage{Case: "config=basic X=0.5 build=approved data=120 distinct 16-frame stacks", Config: ucfg, Body: vhttp.Log[0].Body, Expect: "accept", Why: "report produced by the uploader under this configuration"})
			res.Class(fmt.Sprintf("large-report/over-100KiB=%v", len(vhttp.Log[0].Body) > 100*1024))
		}
		d.Close()
	}
	out.Close()
	res.States = res.Evaluations
	res.Validated = res.Evaluations
	res.Write()
}
