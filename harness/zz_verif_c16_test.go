//go:build verif

package telemetry

// C16 — the telemetry sidecar starts only when permitted and never recursively.
// E3 over the decision table (child marker x crash reporting x upload x mode x
// token age x local directory state) on the rewritten root package: process
// starts are recorded by vexec instead of performed, the environment is per
// emulated process; for rows that spawn, the child entry is then run in an
// emulated process with the recorded environment. E1: all interleavings of
// 2-3 starters racing for the upload token.

import (
	"fmt"
	"os"
	"os/exec"
	"path/filepath"
	"runtime/debug"
	"strings"
	"testing"
	"time"

	icounter "golang.org/x/telemetry/internal/counter"
	itelemetry "golang.org/x/telemetry/internal/telemetry"
	"golang.org/x/telemetry/internal/verifshim/ref"
	"golang.org/x/telemetry/internal/verifshim/sched"
	"golang.org/x/telemetry/internal/verifshim/vconfigstore"
	"golang.org/x/telemetry/internal/verifshim/vexec"
	"golang.org/x/telemetry/internal/verifshim/vhttp"
	"golang.org/x/telemetry/internal/verifshim/vos"
	"golang.org/x/telemetry/internal/verifshim/vrep"
	"golang.org/x/telemetry/internal/verifshim/vtime"
)

type zzvExit struct{ code int }

// zzvProc is an emulated process: its own environment, exit instead of os.Exit.
type zzvProc struct {
	env map[string]string
}

func (p *zzvProc) install() {
	vos.EnvGet = func(k string) (string, bool) { v, ok := p.env[k]; return v, ok }
	vos.EnvSet = func(k, v string) { p.env[k] = v }
	vos.EnvList = func() []string {
		var out []string
		for k, v := range p.env {
			out = append(out, k+"="+v)
		}
		return out
	}
	vos.ExitHook = func(code int) { panic(zzvExit{code}) }
}

// run executes f in the emulated process; it reports the exit code (or -1 if f returned).
func (p *zzvProc) run(f func()) (exit int, panicked any) {
	p.install()
	exit = -1
	defer func() {
		if r := recover(); r != nil {
			if e, ok := r.(zzvExit); ok {
				exit = e.code
				return
			}
			panicked = fmt.Sprintf("%v\n%s", r, debug.Stack())
		}
	}()
	f()
	return
}

type zzvRow struct {
	Marker  string `json:"marker"`
	Crashes bool   `json:"report_crashes"`
	Upload  bool   `json:"upload"`
	Mode    string `json:"mode"`
	Token   string `json:"token"`
	Local   string `json:"local_dir"`
}

func zzvC16Row(res *vrep.Result, base string, row zzvRow) {
	dir, _ := os.MkdirTemp(base, "r")
	defer os.RemoveAll(dir)
	td := filepath.Join(dir, "telemetry")
	os.MkdirAll(td, 0o777)
	switch row.Mode {
	case "absent":
	case "garbage":
		os.WriteFile(filepath.Join(td, "mode"), []byte("\xffgarbage"), 0o666)
	default:
		os.WriteFile(filepath.Join(td, "mode"), []byte(row.Mode+" 2020-01-01"), 0o666)
	}
	local := filepath.Join(td, "local")
	switch row.Local {
	case "exists":
		os.MkdirAll(local, 0o777)
	case "blocked":
		os.WriteFile(local, []byte("x"), 0o666)
	case "absent":
	}
	tokenAge := map[string]time.Duration{"fresh": time.Hour, "23h59m": 24*time.Hour - time.Minute, "24h1m": 24*time.Hour + time.Minute, "stale": 25 * time.Hour}
	if age, ok := tokenAge[row.Token]; ok && row.Local == "exists" {
		tf := filepath.Join(local, "upload.token")
		os.WriteFile(tf, nil, 0o666)
		old := time.Now().Add(-age)
		os.Chtimes(tf, old, old)
	}
	vexec.Reset()
	vhttp.Passthrough = false
	vhttp.Reset()
	vconfigstore.Hook = func(string, []string) (*itelemetry.UploadConfig, string, error) {
		return &itelemetry.UploadConfig{}, "v1.0.0", nil
	}
	vtime.NoTimers = true
	icounter.ZZVResetOpen()
	defer icounter.ZZVResetOpen()
	defer debug.SetCrashOutput(nil, debug.CrashOptions{})
	itelemetry.Default = itelemetry.NewDir(filepath.Join(dir, "unused-default"))
	desc := fmt.Sprintf("%+v", row)
	fail := func(sig, format string, args ...any) {
		res.Violate(sig, fmt.Sprintf(format, args...)+" ["+desc+"]", row)
	}
	env := map[string]string{"HOME": dir, "PATH": os.Getenv("PATH")}
	if row.Marker != "" {
		env["GO_TELEMETRY_CHILD"] = row.Marker
		if row.Upload {
			env["GO_TELEMETRY_CHILD_UPLOAD"] = "1"
		}
	}
	p := &zzvProc{env: env}
	before := ref.Snapshot(td)
	cfg := Config{ReportCrashes: row.Crashes, Upload: row.Upload, TelemetryDir: td, UploadStartTime: time.Date(2024, 1, 10, 0, 0, 0, 0, time.UTC), UploadURL: "http://upload.invalid/upload"}
	exit, pan := p.run(func() { Start(cfg) })
	res.Evaluations++
	res.Transitions++
	if pan != nil {
		fail("start-panic", "Start panicked: %v", pan)
		return
	}
	after := ref.Snapshot(td)
	spawns := vexec.Spawns
	modeOff := row.Mode == "off"
	switch row.Marker {
	case "":
		// A regular file in place of the local directory can be stat'ed (the start is not
		// prevented) but no token can be created inside it.
		tokenAcquirable := (row.Token == "absent" || row.Token == "24h1m" || row.Token == "stale") && row.Local != "blocked"
		localOK := true
		wantSpawn := !modeOff && localOK && (row.Crashes || (row.Upload && tokenAcquirable))
		if (len(spawns) == 1) != wantSpawn || len(spawns) > 1 {
			fail("spawn-decision", "%d child processes started, the table says spawn=%v", len(spawns), wantSpawn)
		}
		if modeOff {
			if d := before.Diff(after); len(d) > 0 {
				fail("mode-off-wrote", "mode off, yet %v", d)
			}
		}
		if len(spawns) == 1 {
			envHas := func(kv string) bool {
				for _, e := range spawns[0].Env {
					if e == kv {
						return true
					}
				}
				return false
			}
			if !envHas("GO_TELEMETRY_CHILD=1") {
				fail("child-env-marker", "child environment lacks GO_TELEMETRY_CHILD=1")
			}
			wantUp := row.Upload && tokenAcquirable && localOK
			if envHas("GO_TELEMETRY_CHILD_UPLOAD=1") != wantUp {
				fail("child-env-upload", "child environment upload flag=%v, want %v", envHas("GO_TELEMETRY_CHILD_UPLOAD=1"), wantUp)
			}
			// Run the child's entry point in an emulated process with that environment.
			if !row.Crashes {
				cenv := map[string]string{}
				for _, e := range spawns[0].Env {
					k, v, _ := strings.Cut(e, "=")
					cenv[k] = v
				}
				vexec.Reset()
				icounter.ZZVResetOpen()
				child := &zzvProc{env: cenv}
				cexit, cpan := child.run(func() { Start(cfg) })
				res.Transitions++
				if cpan != nil {
					fail("child-panic", "child entry panicked: %v", cpan)
				}
				if cexit != 0 {
					fail("child-exit", "child entry ended with exit=%d (want os.Exit(0))", cexit)
				}
				if len(vexec.Spawns) != 0 {
					fail("child-spawned", "the telemetry child started %d further processes", len(vexec.Spawns))
				}
				if cenv["GO_TELEMETRY_CHILD"] != "2" {
					fail("child-marker-not-advanced", "child left GO_TELEMETRY_CHILD=%q for its descendants", cenv["GO_TELEMETRY_CHILD"])
				}
				// A descendant of the child (it inherits the child's environment).
				vexec.Reset()
				grand := &zzvProc{env: cenv}
				gexit, gpan := grand.run(func() { Start(cfg) })
				if gpan != nil || gexit != -1 || len(vexec.Spawns) != 0 {
					fail("descendant-spawned", "a descendant of the child: exit=%d panic=%v spawns=%d", gexit, gpan, len(vexec.Spawns))
				}
			}
		}
		if exit != -1 {
			fail("parent-exited", "Start exited the parent process with code %d", exit)
		}
		res.Class(fmt.Sprintf("parent/spawn=%v/mode=%s", len(spawns) == 1, row.Mode))
	case "1":
		// The sidecar itself: must never start a process; it exits when done.
		if len(spawns) != 0 {
			fail("child-spawned", "a process marked as telemetry child started %d processes", len(spawns))
		}
		if !row.Crashes && exit != 0 {
			fail("child-exit", "child entry ended with exit=%d", exit)
		}
		if modeOff {
			// the mode can be switched off between the parent's decision and the child's start
			if d := before.Diff(after); len(d) > 0 {
				fail("mode-off-wrote", "telemetry child with mode off, yet %v", d)
			}
		}
		res.Class("marker1")
	case "2":
		if len(spawns) != 0 {
			fail("descendant-spawned", "a descendant of the telemetry child started %d processes", len(spawns))
		}
		if exit != -1 {
			fail("descendant-exited", "Start exited a descendant process with code %d", exit)
		}
		if d := before.Diff(after); len(d) > 0 {
			fail("descendant-wrote", "a descendant of the child changed the telemetry directory: %v", d)
		}
		res.Class("marker2")
	}
	if res.Evaluations%100 == 1 {
		res.Sample(6, map[string]any{"row": row, "spawns": len(spawns)})
	}
}

// --- token race ---------------------------------------------------------------------

type zzvTokenRun struct {
	dir      string
	acquired int
}

func zzvTokenScenario(base string, n int, token string) *sched.Scenario {
	return &sched.Scenario{
		Name:     fmt.Sprintf("T-%d-starters-token-%s", n, token),
		MaxSteps: 1000,
		Setup: func(x *sched.Exec) {
			vos.Points, vos.Faults = true, false
			vos.EnvGet, vos.EnvSet, vos.EnvList, vos.ExitHook = nil, nil, nil, nil
			dir, _ := os.MkdirTemp(base, "k")
			r := &zzvTokenRun{dir: dir}
			x.Scratch = r
			itelemetry.Default = itelemetry.NewDir(dir)
			os.MkdirAll(itelemetry.Default.LocalDir(), 0o777)
			if token == "fresh" {
				tf := filepath.Join(itelemetry.Default.LocalDir(), "upload.token")
				os.WriteFile(tf, nil, 0o666)
				old := time.Now().Add(-time.Hour)
				os.Chtimes(tf, old, old)
			}
			for i := 0; i < n; i++ {
				x.Go(fmt.Sprintf("starter%d", i), func() {
					if acquireUploadToken() {
						r.acquired++
					}
				})
			}
		},
		Check: func(x *sched.Exec) ([]string, uint64) {
			r := x.Scratch.(*zzvTokenRun)
			var v []string
			for _, t := range x.Threads {
				if t.Panic != nil {
					v = append(v, fmt.Sprintf("panic: %v", t.Panic))
				}
			}
			max := 1
			if token == "fresh" {
				max = 0
			}
			if r.acquired > max {
				v = append(v, fmt.Sprintf("%d starters acquired the upload token (token initially %s)", r.acquired, token))
			}
			if token == "absent" && r.acquired == 0 {
				v = append(v, "nobody acquired the absent token")
			}
			return v, uint64(r.acquired)
		},
		Teardown: func(x *sched.Exec) { os.RemoveAll(x.Scratch.(*zzvTokenRun).dir) },
	}
}

func TestVerifC16(t *testing.T) {
	if os.Getenv("VERIF_C16_FATAL") != "" {
		// Subprocess for the marker value that reaches log.Fatalf.
		p := &zzvProc{env: map[string]string{"GO_TELEMETRY_CHILD": os.Getenv("VERIF_C16_FATAL")}}
		p.install()
		vos.ExitHook = nil
		Start(Config{ReportCrashes: true, Upload: true, TelemetryDir: os.Getenv("VERIF_C16_DIR")})
		fmt.Printf("RETURNED spawns=%d\n", len(vexec.Spawns))
		os.Exit(0)
	}
	if os.Getenv("VERIF_C16_CRASHCHILD") != "" {
		// Subprocess: a telemetry child with crash reporting; the crash text arrives on standard input.
		p := &zzvProc{env: map[string]string{"GO_TELEMETRY_CHILD": "1"}}
		p.install()
		vos.ExitHook = nil
		Start(Config{ReportCrashes: true, TelemetryDir: os.Getenv("VERIF_C16_DIR")})
		fmt.Printf("RETURNED spawns=%d\n", len(vexec.Spawns))
		os.Exit(0)
	}
	p := vrep.Env()
	res := vrep.New("C16", p)
	defer res.Guard()
	base, _ := vrep.Scratch("c16")
	res.Rule = "E3: the full decision table marker {unset,1,2} x ReportCrashes x Upload x mode {on,local,off,garbage,absent} x token {absent, 1h, 23h59m, 24h1m, 25h} x local dir {exists, blocked by a file, absent}; rows that spawn are followed by the child entry and a descendant in emulated processes; one row with an unexpected marker and six crash-monitor-child rows (mode off/on x standard input empty / unparsable crash / crash without sentinel) run in real subprocesses; E1: all interleavings of 2 (thorough 3) starters in acquireUploadToken with the token absent / fresh; classes = (marker, spawn decision, mode)"
	res.Assumptions = []string{"process starts are recorded by the vexec seam; the child entry runs in an emulated process (own environment map, exit as a panic)", "a token aged exactly 24h is not in the table (the statement does not fix that instant)", "table rows with ReportCrashes do not run the child entry in the emulated process (the crash monitor child reads the real standard input); six such rows run in real subprocesses instead"}
	idx := 0
	for _, marker := range []string{"", "1", "2"} {
		for _, crashes := range []bool{false, true} {
			for _, up := range []bool{false, true} {
				for _, mode := range []string{"on", "local", "off", "garbage", "absent"} {
					for _, token := range []string{"absent", "fresh", "23h59m", "24h1m", "stale"} {
						for _, local := range []string{"exists", "blocked", "absent"} {
							if marker == "1" && crashes {
								continue // would run the real crash monitor child (reads stdin, exits the process)
							}
							if token != "absent" && local != "exists" {
								continue
							}
							idx++
							if !p.Mine(idx) {
								continue
							}
							zzvC16Row(res, base, zzvRow{marker, crashes, up, mode, token, local})
						}
					}
				}
			}
		}
	}
	vos.EnvGet, vos.EnvSet, vos.EnvList, vos.ExitHook = nil, nil, nil, nil
	// The unexpected marker value.
	if p.Mine(0) {
		exe, _ := os.Executable()
		dir, _ := os.MkdirTemp(base, "f")
		cmd := exec.Command(exe, "-test.run", "^TestVerifC16$")
		cmd.Env = append(os.Environ(), "VERIF_C16_FATAL=3", "VERIF_C16_DIR="+dir, "VERIF_OUT=")
		out, err := cmd.CombinedOutput()
		res.Evaluations++
		res.Validated++
		if err == nil || strings.Contains(string(out), "RETURNED") {
			res.Violate("unexpected-marker-continues", fmt.Sprintf("Start with GO_TELEMETRY_CHILD=3 did not stop the process (err=%v, output %q)", err, out), nil)
		}
		res.Class("marker-unexpected")
	}
	// The crash-monitor child (marker 1, crash reporting) in a real subprocess, its standard input carrying
	// nothing, a crash text the monitor cannot parse, or a well-formed one: with mode off nothing is written,
	// neither in the telemetry directory nor in the directory for temporary files.
	if p.Mine(1) {
		exe, _ := os.Executable()
		inputs := map[string]string{
			"no-crash":    "",
			"unparsable":  "sentinel 1234\npanic: PII\n\ngoroutine 1 [running]:\nnot a frame line\n",
			"no-sentinel": "panic: PII\n\ngoroutine 1 [running]:\nmain.main()\n\t/x/main.go:1 +0x1 sp=0x1 fp=0x2 pc=0x47\n\n",
		}
		for in, text := range inputs {
			for _, mode := range []string{"off 2024-01-01", "on 2024-01-01"} {
				td, _ := os.MkdirTemp(base, "cc")
				tmp, _ := os.MkdirTemp(base, "tmp")
				os.MkdirAll(filepath.Join(td, "local"), 0o777)
				os.WriteFile(filepath.Join(td, "mode"), []byte(mode), 0o666)
				os.WriteFile(filepath.Join(td, "local", "weekends"), []byte("3\n"), 0o666)
				before, beforeTmp := ref.Snapshot(td), ref.Snapshot(tmp)
				cmd := exec.Command(exe, "-test.run", "^TestVerifC16$")
				cmd.Env = append(os.Environ(), "VERIF_C16_CRASHCHILD=1", "VERIF_C16_DIR="+td, "VERIF_OUT=", "TMPDIR="+tmp)
				cmd.Stdin = strings.NewReader(text)
				out, _ := cmd.CombinedOutput()
				res.Evaluations++
				res.Validated++
				desc := fmt.Sprintf("crash-monitor child, mode %q, standard input %s", mode, in)
				if strings.HasPrefix(mode, "off") {
					if d := before.Diff(ref.Snapshot(td)); len(d) > 0 {
						res.Violate("mode-off-wrote", fmt.Sprintf("%s: telemetry directory changed: %v", desc, d), map[string]any{"case": desc})
					}
					if d := beforeTmp.Diff(ref.Snapshot(tmp)); len(d) > 0 {
						res.Violate("mode-off-wrote:tempdir", fmt.Sprintf("%s: files written to the temporary directory: %v (output %.200q)", desc, d, out), map[string]any{"case": desc})
					}
				}
				if strings.Contains(string(out), "RETURNED") {
					res.Violate("child-returned", fmt.Sprintf("%s: the telemetry child returned from Start instead of exiting", desc), map[string]any{"case": desc})
				}
				res.Class("crash-child/" + in + "/" + mode[:2])
				os.RemoveAll(td)
				os.RemoveAll(tmp)
			}
		}
	}
	// Token race.
	ns := []int{2}
	if p.Thorough() {
		ns = []int{2, 3}
	}
	for _, n := range ns {
		for _, token := range []string{"absent", "fresh"} {
			ex := &sched.Explorer{Sc: zzvTokenScenario(base, n, token), Bounds: sched.Bounds{Preempt: 100}, Deadline: p.Deadline, Shard: p.Shard, NShards: p.NShards}
			st := ex.Explore()
			res.Evaluations += st.Executions
			res.Transitions += st.Transitions
			res.States += int64(st.States)
			if !st.Exhaustive {
				res.Exhaustive = false
			}
			res.Scenarios = append(res.Scenarios, vrep.ScenarioStat{Name: st.Scenario, Bound: "unbounded", Executions: st.Executions, Transitions: st.Transitions, States: int64(st.States), Outcomes: int64(len(st.Outcomes)), Exhaustive: st.Exhaustive})
			for o := range st.Outcomes {
				res.Classes[fmt.Sprintf("%s/%d", st.Scenario, o)]++
			}
			for _, f := range st.Violations {
				for _, m := range f.Messages {
					res.Violate("token-race:"+token, m, map[string]any{"scenario": f.Scenario, "choices": f.Choices, "steps": f.Steps})
				}
			}
		}
	}
	if res.States == 0 {
		res.States = res.Evaluations
	}
	res.Write()
}
