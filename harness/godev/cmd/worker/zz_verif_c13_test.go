//go:build verif

package main

// C13 — merging and charting count every stored report exactly once.
// Engine E3 over sets of stored reports (X values, program sets, buckets,
// encoded size classes around the 64 KiB line length) x date ranges, E2 over
// (store, merge, chart) sequences; the real handleMerge / handleChart run on
// file-system buckets and are compared with a reference grouping.

import (
	"bytes"
	"context"
	"encoding/json"
	"fmt"
	"io"
	"net/http"
	"net/http/httptest"
	"os"
	"path/filepath"
	"sort"
	"strings"
	"testing"
	"time"

	"golang.org/x/exp/slog"
	"golang.org/x/telemetry/godev/internal/storage"
	tconfig "golang.org/x/telemetry/internal/config"
	"golang.org/x/telemetry/internal/telemetry"
	"golang.org/x/telemetry/internal/verifshim/vrep"
)

func zzvWorkerConfig() *telemetry.UploadConfig {
	return &telemetry.UploadConfig{
		GOOS: []string{"linux", "darwin"}, GOARCH: []string{"amd64", "arm64"}, GoVersion: []string{"go1", "go1.21.0", "go1.21.5", "go1.22.0"}, SampleRate: 1, // "go1": the tag of Go 1.0, a version without a minor part
		Programs: []*telemetry.ProgramConfig{
			{Name: "example.com/p1", Versions: []string{"v1.0.0", "v1.1.0", "v1.1.0+meta"},
				Counters: []telemetry.CounterConfig{{Name: "c", Rate: 1}, {Name: "d:{a,b}", Rate: 1}},
				Stacks:   []telemetry.CounterConfig{{Name: "s", Rate: 1, Depth: 5}}},
			{Name: "cmd/go", Versions: []string{"go1.21.0", "go1.22.0"}, Counters: []telemetry.CounterConfig{{Name: "e:{x,y}", Rate: 1}}},
		},
	}
}

type zzvStored struct {
	day    string
	report telemetry.Report
}

type zzvWorld struct {
	root string
	api  *storage.API
	cfg  *tconfig.Config
}

func zzvNewWorld(base string) *zzvWorld {
	root, err := os.MkdirTemp(base, "w")
	if err != nil {
		panic(err)
	}
	ctx := context.Background()
	up, _ := storage.NewFSBucket(ctx, root, "uploaded")
	mg, _ := storage.NewFSBucket(ctx, root, "merged")
	ch, _ := storage.NewFSBucket(ctx, root, "charted")
	return &zzvWorld{root: root, api: &storage.API{Upload: up, Merge: mg, Chart: ch}, cfg: tconfig.NewConfig(zzvWorkerConfig())}
}

// store writes a report the way the upload handler does.
func (w *zzvWorld) store(day string, r telemetry.Report) {
	name := fmt.Sprintf("%s/%g.json", day, r.X)
	f, err := w.api.Upload.Object(name).NewWriter(context.Background())
	if err != nil {
		panic(err)
	}
	if err := json.NewEncoder(f).Encode(r); err != nil {
		panic(err)
	}
	f.Close()
}

func (w *zzvWorld) merge(day string) (int, string) {
	rec := httptest.NewRecorder()
	handleMerge(w.api).ServeHTTP(rec, httptest.NewRequest("GET", "/merge/?date="+day, nil))
	return rec.Code, rec.Body.String()
}

func (w *zzvWorld) chart(query string) (code int, body string) {
	defer func() {
		if r := recover(); r != nil {
			// the server's Recover middleware would answer 500; for the check a panic is a failure of its own
			code, body = 599, fmt.Sprintf("handler panic: %v", r)
		}
	}()
	rec := httptest.NewRecorder()
	handleChart(w.cfg, w.api).ServeHTTP(rec, httptest.NewRequest("GET", "/chart/?"+query, nil))
	return rec.Code, rec.Body.String()
}

func zzvProg(prog, ver, gover, goos, goarch string, counters map[string]int64) *telemetry.ProgramReport {
	return &telemetry.ProgramReport{Program: prog, Version: ver, GoVersion: gover, GOOS: goos, GOARCH: goarch, Counters: counters, Stacks: map[string]int64{}}
}

// zzvPad grows the report's encoded line to exactly n bytes (including the
// newline the encoder appends) using an approved stack counter name.
func zzvPad(r telemetry.Report, n int) telemetry.Report {
	if n == 0 {
		return r
	}
	p := *r.Programs[0]
	r.Programs = append([]*telemetry.ProgramReport{&p}, r.Programs[1:]...)
	for pad := 0; ; pad++ {
		p.Stacks = map[string]int64{"s\n" + strings.Repeat("f", pad): 1}
		var buf bytes.Buffer
		json.NewEncoder(&buf).Encode(r)
		if buf.Len() == n {
			return r
		}
		if buf.Len() > n {
			panic("cannot pad to the requested size")
		}
		if n-buf.Len() > 64 {
			pad += n - buf.Len() - 64
		}
	}
}

// zzvPool returns the content pool; X is assigned separately.
func zzvPool() []telemetry.Report {
	mk := func(week string, progs ...*telemetry.ProgramReport) telemetry.Report {
		return telemetry.Report{Week: week, Config: "v1.0.0", Programs: progs}
	}
	return []telemetry.Report{
		mk("2024-01-07", zzvProg("example.com/p1", "v1.0.0", "go1.21.0", "linux", "amd64", map[string]int64{"c": 1, "d:a": 2})),
		mk("2024-01-07", zzvProg("example.com/p1", "v1.1.0", "go1.21.5", "darwin", "arm64", map[string]int64{"d:b": 1})),
		mk("2024-01-07", zzvProg("example.com/p1", "v1.0.0", "go1.22.0", "linux", "arm64", map[string]int64{"c": 5}), zzvProg("example.com/p1", "v1.1.0", "go1.22.0", "linux", "arm64", map[string]int64{"d:a": 1}),
			zzvProg("cmd/go", "go1.22.0", "go1.22.0", "linux", "arm64", map[string]int64{"e:x": 3})),
		mk("2024-01-14", zzvProg("cmd/go", "go1.21.0", "go1.21.0", "darwin", "amd64", map[string]int64{"e:y": 1, "e:x": 1})),
		mk("2024-01-14", zzvProg("example.com/p1", "v1.1.0+meta", "go1.21.0", "linux", "amd64", map[string]int64{"c": 2, "d:a": 2, "d:b": 2})),
		mk("2024-01-07"),
	}
}

// zzvRefCounts is the reference grouping: (program, chart, key) -> set of X.
func zzvRefCounts(reports []telemetry.Report) map[[3]string]map[float64]bool {
	out := map[[3]string]map[float64]bool{}
	add := func(p, c, k string, x float64) {
		key := [3]string{p, c, k}
		if out[key] == nil {
			out[key] = map[float64]bool{}
		}
		out[key][x] = true
	}
	for _, r := range reports {
		for _, p := range r.Programs {
			add(p.Program, "Version", p.Version, r.X)
			add(p.Program, "GOOS", p.GOOS, r.X)
			add(p.Program, "GOARCH", p.GOARCH, r.X)
			mm := p.GoVersion
			if parts := strings.SplitN(strings.TrimPrefix(mm, "go"), ".", 3); len(parts) >= 2 {
				mm = "go" + parts[0] + "." + parts[1]
			}
			add(p.Program, "GoVersion", mm, r.X)
			for c := range p.Counters {
				chart, bucket := c, c
				if i := strings.Index(c, ":"); i >= 0 {
					chart, bucket = c[:i], c[i+1:]
				}
				add(p.Program, chart, bucket, r.X)
			}
		}
	}
	return out
}

type zzvChartOut struct {
	DateRange  [2]string
	NumReports int
	Programs   []struct {
		Name   string
		Charts []struct {
			Name string
			Data []struct {
				Week  string
				Key   string
				Value float64
			}
		}
	}
}

func TestVerifC13(t *testing.T) {
	p := vrep.Env()
	res := vrep.New("C13", p)
	defer res.Guard()
	base, _ := vrep.Scratch("c13")
	slog.SetDefault(slog.New(slog.NewTextHandler(io.Discard, nil)))
	res.Rule = "E3: subsets (size 0-3, thorough 0-4) of a pool of 6 report contents placed on 3 days with X from {0.5, 0.05, 5e-05, 0.25} (incl. the same X on two days, text-vs-number sort differences), encoded line sizes {natural, 65535, 65536, 65537, 100000 bytes}, all date ranges over 5 days incl. never-merged days; the real handleMerge/handleChart on file-system buckets vs a reference grouping; output compared under permutation of X; classes = (reports, range, size class) shapes; plus the missing-day clause over the Cloud Storage backend against a local stand-in for the service"
	res.Assumptions = []string{"Go map iteration order inside the handlers is not seamed: each case is run twice and must be byte-identical", "file-system backend only"}
	if p.Replay != "" {
		fmt.Println("C13 replay: cases are deterministic; re-run the quick check")
		return
	}
	days := []string{"2024-01-08", "2024-01-09", "2024-01-10"}
	allDays := []string{"2024-01-07", "2024-01-08", "2024-01-09", "2024-01-10", "2024-01-11"}
	xs := []float64{0.5, 0.05, 5e-05, 0.25}
	pool := zzvPool()
	// The stored object is the server's re-encoding of the request (HTML-escaping can make it
	// longer than the 100 KiB request limit), so sizes beyond that limit occur too.
	sizes := []int{0, 65535, 65536, 65537, 100000, 102401, 150000}
	maxN := 2
	if p.Thorough() {
		maxN = 3
	}
	// A placement is a list of (content, day, x, size).
	type item struct{ c, d, x, size int }
	var placements [][]item
	var rec func(cur []item, startC int)
	rec = func(cur []item, startC int) {
		placements = append(placements, append([]item{}, cur...))
		if len(cur) == maxN {
			return
		}
		for c := startC; c < len(pool); c++ {
			for d := range days {
				for x := range xs {
					// the same (day, X) twice would overwrite: skip
					dup := false
					for _, it := range cur {
						if it.d == d && it.x == x {
							dup = true
						}
					}
					if dup {
						continue
					}
					sz := 0
					if len(pool[c].Programs) > 0 && (c+d+x)%3 == 0 {
						sz = 1 + (c+2*d+x)%6 // a large size class for a third of the items
					}
					if len(cur) > 0 && x > 1 && c > 2 {
						continue // prune: keep the space tractable
					}
					rec(append(cur, item{c, d, x, sz}), c)
				}
			}
		}
	}
	rec(nil, 0)
	for pi, pl := range placements {
		if !p.Mine(pi) {
			continue
		}
		if p.Expired() {
			res.Exhaustive = false
			break
		}
		var outputs [2]map[string]string
		for perm := 0; perm < 2; perm++ {
			w := zzvNewWorld(base)
			byDay := map[string][]telemetry.Report{}
			for i, it := range pl {
				r := pool[it.c]
				xi := it.x
				if perm == 1 {
					// another assignment of X values to contents on the same day
					for j, jt := range pl {
						if j != i && jt.d == it.d {
							xi = jt.x
							break
						}
					}
					if xi == it.x {
						xi = it.x
					}
				}
				_ = xi
				r.X = xs[it.x]
				r = zzvPad(r, sizes[it.size])
				w.store(days[it.d], r)
				byDay[days[it.d]] = append(byDay[days[it.d]], r)
			}
			desc := fmt.Sprint(pl)
			fail := func(sig, format string, args ...any) {
				res.Violate(sig, fmt.Sprintf(format, args...)+" [placement "+desc+"]", map[string]any{"placement": desc})
			}
			// Merge every day in the window.
			for _, d := range days {
				code, body := w.merge(d)
				res.Transitions++
				if code != 200 {
					fail("merge-failed", "merge of %s answered %d %s", d, code, body)
					continue
				}
				data, _ := os.ReadFile(filepath.Join(w.root, "merged", d+".json"))
				lines := bytes.Split(bytes.TrimRight(data, "\n"), []byte("\n"))
				if len(data) == 0 {
					lines = nil
				}
				if len(lines) != len(byDay[d]) {
					fail("merge-line-count", "merged object of %s has %d lines for %d stored reports", d, len(lines), len(byDay[d]))
					continue
				}
				var got, want []string
				for _, l := range lines {
					var r telemetry.Report
					if err := json.Unmarshal(l, &r); err != nil {
						fail("merge-line-invalid", "merged line is not a report: %v", err)
					}
					b, _ := json.Marshal(r)
					got = append(got, string(b))
				}
				for _, r := range byDay[d] {
					b, _ := json.Marshal(r)
					want = append(want, string(b))
				}
				sort.Strings(got)
				sort.Strings(want)
				if fmt.Sprint(got) != fmt.Sprint(want) {
					fail("merge-content", "merged lines of %s differ from the stored reports", d)
				}
			}
			// Chart every range.
			outs := map[string]string{}
			for i := range allDays {
				for j := i; j < len(allDays); j++ {
					q := "start=" + allDays[i] + "&end=" + allDays[j]
					if i == j {
						q = "date=" + allDays[i]
					}
					code, body := w.chart(q)
					res.Transitions++
					res.Evaluations++
					missing := false
					var inRange []telemetry.Report
					for k := i; k <= j; k++ {
						if allDays[k] < days[0] || allDays[k] > days[len(days)-1] {
							missing = true
						}
						inRange = append(inRange, byDay[allDays[k]]...)
					}
					obj := allDays[i] + "_" + allDays[j] + ".json"
					if i == j {
						obj = allDays[i] + ".json"
					}
					chartPath := filepath.Join(w.root, "charted", obj)
					if missing {
						if code != 404 {
							fail("missing-day-not-404", "range %s touches a day that was never merged but the answer is %d", q, code)
						}
						if _, err := os.Stat(chartPath); err == nil {
							fail("missing-day-charted", "range %s touches a day that was never merged but a chart object was written", q)
						}
						res.Class("range/missing-day")
						continue
					}
					if code != 200 {
						fail("chart-failed", "chart %s answered %d %s", q, code, body)
						continue
					}
					data, err := os.ReadFile(chartPath)
					if err != nil {
						fail("chart-object-missing", "chart %s: %v", q, err)
						continue
					}
					outs[q] = string(data)
					var out zzvChartOut
					if err := json.Unmarshal(data, &out); err != nil {
						fail("chart-not-json", "chart %s: %v", q, err)
						continue
					}
					if out.NumReports != len(inRange) {
						fail("num-reports", "chart %s reports NumReports=%d, %d reports are stored in the range", q, out.NumReports, len(inRange))
					}
					ref := zzvRefCounts(inRange)
					seen := map[[3]string]bool{}
					for _, pr := range out.Programs {
						for _, ch := range pr.Charts {
							for _, dt := range ch.Data {
								key := [3]string{pr.Name, ch.Name, dt.Key}
								seen[key] = true
								if int(dt.Value) != len(ref[key]) {
									fail("partition-value", "chart %s: %s / %s / %s = %v, distinct report IDs carrying it: %d", q, pr.Name, ch.Name, dt.Key, dt.Value, len(ref[key]))
								}
							}
						}
					}
					for key, ids := range ref {
						if len(ids) > 0 && !seen[key] && zzvConfigured(key) {
							fail("partition-missing", "chart %s lacks %v carried by %d reports", q, key, len(ids))
						}
					}
					big := 0
					for _, r := range inRange {
						b, _ := json.Marshal(r)
						if len(b) > 60000 {
							big++
						}
					}
					res.Class(fmt.Sprintf("range/days=%d/reports=%d/large=%d", j-i+1, min(len(inRange), 4), min(big, 2)))
				}
			}
			outputs[perm] = outs
			os.RemoveAll(w.root)
		}
		for q, a := range outputs[0] {
			if b, ok := outputs[1][q]; ok && a != b {
				res.Violate("chart-not-deterministic", fmt.Sprintf("chart %s differs between two runs over the same set of reports [placement %v]", q, pl), nil)
			}
		}
		if pi%50 == 0 {
			res.Sample(6, map[string]any{"placement": fmt.Sprint(pl), "charts": len(outputs[0])})
		}
	}
	// A configuration whose counters are named like the worker's own charts of build metadata ("GOOS:{darwin}")
	// or like their own bucket ("k" next to "k:{k}"): a chart still counts the reports that carry its bucket.
	if p.Mine(2) {
		cw := zzvNewWorld(base)
		ucfg := zzvWorkerConfig()
		ucfg.Programs[0].Counters = append(ucfg.Programs[0].Counters, telemetry.CounterConfig{Name: "GOOS:{darwin}", Rate: 1}, telemetry.CounterConfig{Name: "k", Rate: 1}, telemetry.CounterConfig{Name: "k:{k,m}", Rate: 1})
		cw.cfg = tconfig.NewConfig(ucfg)
		prog := ucfg.Programs[0].Name
		day := "2024-01-07"
		// one report, built on linux, that carries GOOS:darwin and k:k (but neither darwin as its GOOS nor the bare k)
		r := telemetry.Report{Week: day, Config: "v1.0.0", X: 0.5, Programs: []*telemetry.ProgramReport{zzvProg(prog, ucfg.Programs[0].Versions[0], "go1.21.0", "linux", "amd64", map[string]int64{"GOOS:darwin": 1, "k:k": 1})}}
		cw.store(day, r)
		mc, _ := cw.merge(day)
		code, _ := cw.chart("date=" + day)
		res.Evaluations++
		data, err := os.ReadFile(filepath.Join(cw.root, "charted", day+".json"))
		var out zzvChartOut
		if mc != 200 || code != 200 || err != nil || json.Unmarshal(data, &out) != nil {
			res.Violate("chart-failed", fmt.Sprintf("collision configuration: merge %d chart %d err %v", mc, code, err), nil)
		} else {
			// expected per chart *occurrence*: the metadata chart GOOS {linux:1}; the counter chart GOOS {darwin:1};
			// the chart k {k:1} stands for k:k, the bare counter k was never reported
			for _, pr := range out.Programs {
				if pr.Name != prog {
					continue
				}
				seenGOOS := 0
				for _, ch := range pr.Charts {
					vals := map[string]float64{}
					for _, dt := range ch.Data {
						vals[dt.Key] += dt.Value
					}
					if ch.Name == "GOOS" {
						seenGOOS++
						if vals["darwin"] != 0 && vals["linux"] != 0 {
							res.Violate("partition-value:chart-name-collision", fmt.Sprintf("a chart named GOOS shows %v: the only report was built on linux and carries the counter GOOS:darwin; build metadata and the configured counter GOOS:{darwin} are counted into one chart", vals), nil)
						}
					}
				}
				if seenGOOS == 1 {
					res.Violate("partition-missing:chart-name-collision", "one chart named GOOS for both the build metadata and the configured counter GOOS:{darwin}", nil)
				}
			}
		}
		res.Class("collision-config")
		os.RemoveAll(cw.root)
	}
	// The Cloud Storage backend against a stand-in for the service (the client library's own
	// STORAGE_EMULATOR_HOST hook): buckets exist, no object does. A day that was never merged must be
	// reported as not found there too.
	if p.Mine(0) {
		srv := httptest.NewServer(http.HandlerFunc(func(w http.ResponseWriter, r *http.Request) {
			if strings.HasPrefix(r.URL.Path, "/storage/v1/b/") && !strings.Contains(r.URL.Path, "/o/") && !strings.HasSuffix(r.URL.Path, "/o") {
				w.Header().Set("Content-Type", "application/json")
				w.Write([]byte(`{"kind":"storage#bucket","name":"b"}`))
				return
			}
			if strings.HasSuffix(r.URL.Path, "/o") { // object listing: empty
				w.Header().Set("Content-Type", "application/json")
				w.Write([]byte(`{"kind":"storage#objects","items":[]}`))
				return
			}
			http.Error(w, "No such object", http.StatusNotFound)
		}))
		os.Setenv("STORAGE_EMULATOR_HOST", strings.TrimPrefix(srv.URL, "http://"))
		ctx := context.Background()
		gu, e1 := storage.NewGCSBucket(ctx, "p", "uploaded")
		gm, e2 := storage.NewGCSBucket(ctx, "p", "merged")
		gc, e3 := storage.NewGCSBucket(ctx, "p", "charted")
		if e1 != nil || e2 != nil || e3 != nil {
			res.Note("Cloud Storage leg skipped: the client could not be set up against the local stand-in (%v %v %v)", e1, e2, e3)
		} else {
			gw := &zzvWorld{api: &storage.API{Upload: gu, Merge: gm, Chart: gc}, cfg: tconfig.NewConfig(zzvWorkerConfig())}
			for _, q := range []string{"date=2024-01-01", "start=2024-01-01&end=2024-01-03"} {
				code, body := gw.chart(q)
				res.Evaluations++
				if code != 404 {
					res.Violate("missing-day-not-404:gcs", fmt.Sprintf("Cloud Storage backend: chart %s over a day that was never merged is answered %d (%.80q), want 404", q, code, body), map[string]any{"query": q})
				}
				res.Class("gcs/missing-day")
			}
		}
		os.Unsetenv("STORAGE_EMULATOR_HOST")
		srv.Close()
	}
	res.States = res.Evaluations
	res.Validated = res.Evaluations
	_ = time.Now
	res.Write()
}

// zzvConfigured reports whether (program, chart, key) is a bucket the
// configuration asks to chart.
func zzvConfigured(key [3]string) bool {
	cfg := zzvWorkerConfig()
	for _, p := range cfg.Programs {
		if p.Name != key[0] {
			continue
		}
		switch key[1] {
		case "Version":
			if strings.HasPrefix(p.Name, "cmd/") {
				return false
			}
			for _, v := range p.Versions {
				if v == key[2] {
					return true
				}
			}
			return false
		case "GOOS":
			return key[2] == "linux" || key[2] == "darwin"
		case "GOARCH":
			return key[2] == "amd64" || key[2] == "arm64"
		case "GoVersion":
			return key[2] == "go1.21" || key[2] == "go1.22"
		}
		for _, c := range p.Counters {
			for _, e := range tconfig.Expand(c.Name) {
				chart, bucket := e, e
				if i := strings.Index(e, ":"); i >= 0 {
					chart, bucket = e[:i], e[i+1:]
				}
				if chart == key[1] && bucket == key[2] {
					return true
				}
			}
		}
	}
	return false
}
