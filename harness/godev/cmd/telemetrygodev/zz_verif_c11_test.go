//go:build verif

package main

// C11, stage 2 — the upload server on the uploader's output.
// Reads the cases written by stage 1 (package view): every report the real
// uploader produced must be accepted by the real upload handler configured
// with the same configuration. Independently of stage 1, for every
// configuration the server's verdict on a report consisting of one item
// (build / counter / stack), and on an accepted report plus one unapproved
// item, is compared with the documented configuration semantics.

import (
	"bufio"
	"encoding/json"
	"fmt"
	"os"
	"path/filepath"
	"sort"
	"strings"
	"testing"

	"golang.org/x/telemetry/internal/telemetry"
	"golang.org/x/telemetry/internal/verifshim/ref"
	"golang.org/x/telemetry/internal/verifshim/vrep"
)

type zzvStage struct {
	Case   string                  `json:"case"`
	Config *telemetry.UploadConfig `json:"config"`
	Body   []byte                  `json:"body"`
	Expect string                  `json:"expect"`
	Why    string                  `json:"why"`
}

func TestVerifC11Server(t *testing.T) {
	p := vrep.Env()
	res := vrep.New("C11", p)
	defer res.Guard()
	base, _ := vrep.Scratch("c11s")
	res.Rule = "stage 2: every report the real uploader produced in stage 1 is POSTed to the real upload handler configured with the same configuration (must be accepted); for every stage-1 configuration, single-item reports and accepted-report-plus-one-item mutations over builds differing in one field, counters (approved, unapproved, bucket near-miss) and stack heads are POSTed and the verdict compared with the documented semantics"
	servers := map[string]*zzvServer{}
	serverFor := func(cfg *telemetry.UploadConfig) *zzvServer {
		k, _ := json.Marshal(cfg)
		if s, ok := servers[string(k)]; ok {
			return s
		}
		s := zzvNewServerCfg(base, cfg)
		servers[string(k)] = s
		return s
	}
	files, _ := filepath.Glob(filepath.Join(os.Getenv("VERIF_SCRATCH"), "c11-stage1-*.jsonl"))
	sort.Strings(files)
	if len(files) == 0 {
		res.Internal = "no stage-1 output found"
		res.Write()
	}
	idx := 0
	cfgSeen := map[string]*telemetry.UploadConfig{}
	for _, f := range files {
		fh, err := os.Open(f)
		if err != nil {
			panic(err)
		}
		sc := bufio.NewScanner(fh)
		sc.Buffer(make([]byte, 0, 1<<20), 1<<26)
		for sc.Scan() {
			var st zzvStage
			if err := json.Unmarshal(sc.Bytes(), &st); err != nil {
				panic(err)
			}
			k, _ := json.Marshal(st.Config)
			cfgSeen[string(k)] = st.Config
			idx++
			if !p.Mine(idx) {
				continue
			}
			srv := serverFor(st.Config)
			status, pan := srv.do("POST", "/upload/2024-01-07", st.Body)
			res.Evaluations++
			res.Validated++
			if pan != nil || status != 200 {
				var rep telemetry.Report
				json.Unmarshal(st.Body, &rep)
				why := "?"
				if err := validate(&rep, srv.ucfg()); err != nil {
					why = err.Error()
				}
				sig := "server-rejects-uploader-report"
				switch {
				case strings.Contains(why, "invalid X"):
					sig += ":X=0"
				case strings.Contains(why, "unknown program build"):
					sig += ":build"
				case strings.Contains(why, "unknown counter"):
					sig += ":counter"
				case strings.Contains(why, "unknown stack"):
					sig += ":stack"
				case why == "?" && len(st.Body) > zzvLimit && status == 400:
					sig += ":larger-than-the-request-limit"
				}
				res.Violate(sig, fmt.Sprintf("the server answers %d (%s) to a report the uploader produced under the same configuration [%s]", status, why, st.Case), map[string]any{"case": st.Case, "body": string(st.Body)})
			}
			res.Class(fmt.Sprintf("uploader-report/%d", status))
		}
		fh.Close()
	}
	// Item-level agreement with the documented semantics.
	var keys []string
	for k := range cfgSeen {
		keys = append(keys, k)
	}
	sort.Strings(keys)
	ok := ref.Build{"example.com/p1", "v1.0.0", "go1.21.0", "linux", "amd64"}
	builds := []ref.Build{ok, {"example.com/p9", "v1.0.0", "go1.21.0", "linux", "amd64"}, {"example.com/p1", "v9.0.0", "go1.21.0", "linux", "amd64"}, {"example.com/p1", "v1.0.0", "go1.99.0", "linux", "amd64"},
		{"example.com/p1", "v1.0.0", "go1.21.0", "plan9", "amd64"}, {"example.com/p1", "v1.0.0", "go1.21.0", "linux", "riscv64"}, {"example.com/p1", "v1.1.0", "go1.21.0", "linux", "amd64"}, {"cmd/go", "go1.21.0", "go1.21.0", "linux", "amd64"},
		{"example.com/p1", "v1.0.0", "go1.22.0", "darwin", "arm64"}, {"", "", "", "", ""}}
	names := []string{"c", "c:a", "c:b", "d:a", "d:b", "d:c", "d", "d:{a,b}", "zz", "e", "f:x", "f:z", "t\nmain.f:+1", "s", "s\nmain.f:+1", "t\nmain.f:+1", "c\nmain.f:+1", "s\n", "\nmain.f"}
	for _, k := range keys {
		cfg := cfgSeen[k]
		srv := serverFor(cfg)
		for _, b := range builds {
			for ni := -1; ni < len(names); ni++ {
				for _, withBase := range []bool{false, true} {
					idx++
					if !p.Mine(idx) {
						continue
					}
					pr := &telemetry.ProgramReport{Program: b.Program, Version: b.Version, GoVersion: b.GoVersion, GOOS: b.GOOS, GOARCH: b.GOARCH, Counters: map[string]int64{}, Stacks: map[string]int64{}}
					want := ref.BuildApproved(cfg, b, true)
					item := "build only"
					if ni >= 0 {
						n := names[ni]
						item = fmt.Sprintf("name %q", n)
						if strings.Contains(n, "\n") {
							pr.Stacks[n] = 1
							_, listed := ref.StackListed(cfg, b.Program, n)
							want = want && listed
						} else {
							pr.Counters[n] = 1
							_, listed := ref.CounterListed(cfg, b.Program, n)
							want = want && listed
						}
					}
					rep := telemetry.Report{Week: "2024-01-07", Config: "v1.2.3", X: 0.5, Programs: []*telemetry.ProgramReport{pr}}
					if withBase {
						// An accepted program report carrying the same item name (when it is approved
						// for that program) precedes the item: approval must not carry over.
						bb := ok
						if b.Program == ok.Program {
							bb = ref.Build{"cmd/go", "go1.21.0", "go1.21.0", "linux", "amd64"}
						}
						if !ref.BuildApproved(cfg, bb, true) {
							continue
						}
						base := &telemetry.ProgramReport{Program: bb.Program, Version: bb.Version, GoVersion: bb.GoVersion, GOOS: bb.GOOS, GOARCH: bb.GOARCH, Counters: map[string]int64{}, Stacks: map[string]int64{}}
						if ni >= 0 {
							n := names[ni]
							if strings.Contains(n, "\n") {
								if _, l := ref.StackListed(cfg, bb.Program, n); l {
									base.Stacks[n] = 1
								}
							} else if _, l := ref.CounterListed(cfg, bb.Program, n); l {
								base.Counters[n] = 1
							}
						}
						rep.Programs = append([]*telemetry.ProgramReport{base}, rep.Programs...)
					}
					body, _ := json.Marshal(rep)
					status, pan := srv.do("POST", "/upload/x", body)
					res.Evaluations++
					got := status == 200
					if pan != nil || got != want || (!got && (status < 400 || status >= 500)) {
						res.Violate("server-verdict-differs", fmt.Sprintf("server answers %d to a report with build %v, %s (appended to an accepted report: %v); the documented semantics say approved=%v", status, b, item, withBase, want), map[string]any{"body": string(body)})
					}
					res.Class(fmt.Sprintf("item/approved=%v/status=%d", want, status))
				}
			}
		}
	}
	res.Transitions = res.Evaluations
	res.States = res.Evaluations
	res.Write()
}
