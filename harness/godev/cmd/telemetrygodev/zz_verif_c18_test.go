//go:build verif

package main

// C18, service leg — every object name the services construct resolves inside its bucket's directory.
// The chart page builds an object name from the request path; this leg sends every (method, path) pair of a
// menu of dot-dot, encoded and cross-bucket paths through the real handler chain over the file-system
// backend, with marked files planted next to and outside the bucket directories, and requires that no marked
// content is ever served and that nothing outside the upload bucket is created or changed.

import (
	"bytes"
	"fmt"
	"net/http/httptest"
	"os"
	"path/filepath"
	"strings"
	"testing"

	"golang.org/x/telemetry/internal/verifshim/ref"
	"golang.org/x/telemetry/internal/verifshim/vrep"
)

func TestVerifC18Server(t *testing.T) {
	p := vrep.Env()
	res := vrep.New("C18", p)
	defer res.Guard()
	base, _ := vrep.Scratch("c18s")
	res.Rule = "E3 (service leg): 9 methods x 16 request paths (plain, dot-dot, percent-encoded, doubled slashes, cross-bucket) through the real newHandler chain over a file-system bucket with marked files planted outside the chart bucket; classes = (method class, status)"
	srv := zzvNewServer(base)
	store := srv.cfg.LocalStorage
	plant := func(rel, marker string) {
		fn := filepath.Join(srv.root, rel)
		os.MkdirAll(filepath.Dir(fn), 0o777)
		// chart-shaped, so that the chart page renders it if it gets to read it
		os.WriteFile(fn, []byte(`{"DateRange":["2023-01-01","`+marker+`"],"NumReports":7,"Programs":[]}`), 0o666)
	}
	plant("storage/outside.json", "ZZV-OUTSIDE-STORAGE")
	plant("secret.json", "ZZV-OUTSIDE-ROOT")
	plant("storage/merged/2023-01-01.json", "ZZV-OTHER-BUCKET")
	plant("storage/uploaded/2023-01-01/0.5.json", "ZZV-UPLOAD-BUCKET")
	plant("storage/charted/2023-01-01.json", "ZZV-LEGIT-CHART")
	paths := []string{"/charts/2023-01-01", "/charts/../outside", "/charts/../../secret", "/charts/%2e%2e/outside", "/charts/..%2foutside", "/charts/x/../../outside", "/charts//../outside",
		"/charts/../merged/2023-01-01", "/charts/../uploaded/2023-01-01/0.5", "/charts/./2023-01-01", "/charts/2023-01-01/../../outside", "/charts/..", "/charts/../", "/data/../outside.json", "/upload/../outside", "/charts/%2e%2e%2fmerged%2f2023-01-01"}
	methods := []string{"GET", "HEAD", "POST", "PUT", "DELETE", "CONNECT", "OPTIONS", "PATCH", "TRACE"}
	_ = store
	idx := 0
	for _, m := range methods {
		for _, path := range paths {
			idx++
			if !p.Mine(idx) {
				continue
			}
			before := ref.Snapshot(srv.root)
			var status int
			var body string
			var pan any
			func() {
				defer func() { pan = recover() }()
				req := httptest.NewRequest("GET", "http://telemetry.test"+path, bytes.NewReader(nil))
				req.Method = m
				rec := httptest.NewRecorder()
				srv.handler.ServeHTTP(rec, req)
				status, body = rec.Code, rec.Body.String()
			}()
			res.Evaluations++
			res.Transitions++
			desc := fmt.Sprintf("%s %s", m, path)
			if pan != nil {
				res.Violate("server-panic", fmt.Sprintf("%s: panic %v", desc, pan), map[string]any{"request": desc})
			}
			for _, marker := range []string{"ZZV-OUTSIDE-STORAGE", "ZZV-OUTSIDE-ROOT", "ZZV-OTHER-BUCKET", "ZZV-UPLOAD-BUCKET"} {
				if strings.Contains(body, marker) {
					res.Violate("object-name-escapes-bucket", fmt.Sprintf("%s: status %d, the page serves the content of a file outside the chart bucket (%s)", desc, status, marker), map[string]any{"request": desc})
				}
			}
			if path == "/charts/2023-01-01" && m == "GET" && !strings.Contains(body, "ZZV-LEGIT-CHART") {
				res.Violate("chart-not-served", fmt.Sprintf("%s: status %d, the stored chart object is not served (body %.300q)", desc, status, body), map[string]any{"request": desc})
			}
			if d := before.Diff(ref.Snapshot(srv.root)); len(d) > 0 {
				res.Violate("server-wrote", fmt.Sprintf("%s changed the disk: %v", desc, d), map[string]any{"request": desc})
			}
			mc := "other"
			if m == "GET" || m == "CONNECT" {
				mc = m
			}
			res.Class(fmt.Sprintf("service/%s/%d", mc, status))
		}
	}
	res.States = res.Evaluations
	res.Validated = res.Evaluations
	res.Write()
}
