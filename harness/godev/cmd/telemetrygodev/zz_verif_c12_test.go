//go:build verif

package main

// C12 — the upload endpoint stores exactly the valid reports it is sent.
// Engine E3: methods x paths x bodies (a valid base report with every single
// field deviation, structural variants: truncation at every byte offset,
// padding around the size limit, BOM, arrays, null) through the real handler
// chain built by newHandler (Log, Timeout, RequestSize, Recover, mux), with a
// file-system bucket in a fresh directory; oracle = directory snapshots.

import (
	"bufio"
	"bytes"
	"context"
	"encoding/json"
	"fmt"
	"io"
	"net"
	"net/http"
	"net/http/httptest"
	"os"
	"path/filepath"
	"strings"
	"testing"
	"time"

	"golang.org/x/exp/slog"
	"golang.org/x/telemetry/godev/internal/config"
	tconfig "golang.org/x/telemetry/internal/config"
	"golang.org/x/telemetry/internal/telemetry"
	"golang.org/x/telemetry/internal/verifshim/ref"
	"golang.org/x/telemetry/internal/verifshim/vrep"
)

const zzvLimit = 100 * 1024

func zzvServerConfig() *telemetry.UploadConfig {
	return &telemetry.UploadConfig{
		GOOS: []string{"linux", "darwin"}, GOARCH: []string{"amd64", "arm64"}, GoVersion: []string{"go1.21.0", "go1.22.0"}, SampleRate: 1,
		Programs: []*telemetry.ProgramConfig{
			{Name: "example.com/p1", Versions: []string{"v1.0.0", "v1.1.0"},
				Counters: []telemetry.CounterConfig{{Name: "c", Rate: 1}, {Name: "d:{a,b}", Rate: 1}},
				Stacks:   []telemetry.CounterConfig{{Name: "s", Rate: 1, Depth: 5}}},
			{Name: "cmd/go", Versions: []string{"go1.21.0", "go1.22.0"}, Counters: []telemetry.CounterConfig{{Name: "e", Rate: 1}}},
		},
	}
}

type zzvServer struct {
	root    string
	handler http.Handler
	cfg     *config.Config
	upcfg   *telemetry.UploadConfig
}

func (s *zzvServer) ucfg() *tconfig.Config { return tconfig.NewConfig(s.upcfg) }

func zzvNewServer(base string) *zzvServer { return zzvNewServerCfg(base, zzvServerConfig()) }

func zzvNewServerCfg(base string, ucfg *telemetry.UploadConfig) *zzvServer {
	root, err := os.MkdirTemp(base, "srv")
	if err != nil {
		panic(err)
	}
	cfgPath := filepath.Join(root, "config.json")
	data, _ := json.Marshal(ucfg)
	os.WriteFile(cfgPath, data, 0o666)
	store := filepath.Join(root, "storage")
	cfg := &config.Config{LocalStorage: store, UploadBucket: "uploaded", MergedBucket: "merged", ChartDataBucket: "charted",
		UploadConfig: cfgPath, MaxRequestBytes: zzvLimit, RequestTimeout: time.Minute}
	slog.SetDefault(slog.New(slog.NewTextHandler(io.Discard, nil)))
	return &zzvServer{root: root, handler: newHandler(context.Background(), cfg), cfg: cfg, upcfg: ucfg}
}

func (s *zzvServer) do(method, path string, body []byte) (status int, panicked any) {
	return s.doLen(method, path, body, true)
}

// doLen sends the request with a declared Content-Length or, like a chunked
// upload, without one.
func (s *zzvServer) doLen(method, path string, body []byte, declared bool) (status int, panicked any) {
	defer func() {
		if r := recover(); r != nil {
			panicked = r
		}
	}()
	req := httptest.NewRequest("POST", "http://telemetry.test"+path, bytes.NewReader(body))
	if !declared {
		req.Body = io.NopCloser(bytes.NewReader(body))
		req.ContentLength = -1
		req.TransferEncoding = []string{"chunked"}
	}
	req.Method = method
	rec := httptest.NewRecorder()
	// The Recover middleware prints stack traces to stdout; silence it.
	s.handler.ServeHTTP(rec, req)
	return rec.Code, nil
}

type zzvReq struct {
	desc   string
	method string
	path   string
	body   []byte
	class  string // valid | invalid | dontcare
	report *telemetry.Report
}

func zzvJSON(v any) []byte { b, _ := json.Marshal(v); return b }

func zzvBaseReports() map[string]*telemetry.Report {
	p1 := func() *telemetry.ProgramReport {
		return &telemetry.ProgramReport{Program: "example.com/p1", Version: "v1.0.0", GoVersion: "go1.21.0", GOOS: "linux", GOARCH: "amd64",
			Counters: map[string]int64{"c": 3, "d:a": 4}, Stacks: map[string]int64{"s\nmain.f:+1,+0x1": 2}}
	}
	p2 := &telemetry.ProgramReport{Program: "cmd/go", Version: "go1.22.0", GoVersion: "go1.22.0", GOOS: "darwin", GOARCH: "arm64", Counters: map[string]int64{"e": 1}, Stacks: map[string]int64{}}
	return map[string]*telemetry.Report{
		"empty": {Week: "2023-01-01", Config: "v1.0.0", X: 0.5},
		"one":   {Week: "2023-01-01", LastWeek: "2022-12-25", Config: "v1.2.3", X: 0.25, Programs: []*telemetry.ProgramReport{p1()}},
		"two":   {Week: "2024-02-29", Config: "v0.0.0-0", X: 5e-05, Programs: []*telemetry.ProgramReport{p1(), p2}},
	}
}

// zzvDeviations returns (description, mutated JSON object, class) for a base report.
func zzvDeviations(name string, base *telemetry.Report) []zzvReq {
	var out []zzvReq
	obj := func() map[string]any {
		var m map[string]any
		json.Unmarshal(zzvJSON(base), &m)
		return m
	}
	add := func(desc string, m map[string]any, class string) {
		out = append(out, zzvReq{desc: name + ":" + desc, method: "POST", path: "/upload/2023-01-01", body: zzvJSON(m), class: class})
	}
	for _, w := range []string{"", "2023-13-01", "2023-1-1", "../../x", "2023-01-01/..", "2023-01-01\x00", strings.Repeat("9", 300), "2023-01-01 ", " 2023-01-01", "2023-02-30", "20230101", "2023-01-01T00:00:00Z", "..", "/etc/passwd"} {
		m := obj()
		m["Week"] = w
		add(fmt.Sprintf("Week=%q", w), m, "invalid")
	}
	for _, w := range []string{"2023-01-01", "2099-12-31", "1970-01-01", "2024-02-29"} {
		m := obj()
		m["Week"] = w
		add(fmt.Sprintf("Week=%q", w), m, "valid")
	}
	for _, c := range []string{"", "1.0", "v1.0.0.0", "latest", "v", "1.0.0", "v1.0.0 ", "../v1.0.0"} {
		m := obj()
		m["Config"] = c
		add(fmt.Sprintf("Config=%q", c), m, "invalid")
	}
	for _, c := range []string{"v1.0.0", "v0.0.0-0", "v1.2.3-pre+meta", "v10.20.30"} {
		m := obj()
		m["Config"] = c
		add(fmt.Sprintf("Config=%q", c), m, "valid")
	}
	for _, c := range []string{"v1", "v1.0"} { // shorthand forms: whether these are "semantic versions" is not fixed by the statement
		m := obj()
		m["Config"] = c
		add(fmt.Sprintf("Config=%q", c), m, "dontcare")
	}
	for _, x := range []any{0, 0.0, "0.5", nil, "x", []int{1}, true} {
		m := obj()
		m["X"] = x
		add(fmt.Sprintf("X=%v(%T)", x, x), m, "invalid")
	}
	{
		m := obj()
		delete(m, "X")
		add("X missing", m, "invalid")
	}
	for _, x := range []float64{0.5, -0.5, 1e-300, 1e300, 5e-05, 1, 0.1234567890123456, 123456789} {
		m := obj()
		m["X"] = x
		add(fmt.Sprintf("X=%g", x), m, "valid")
	}
	// every deviation of a program entry twice: in the report's first entry, and in a copy of that entry appended
	// behind the untouched ones (an approved entry in front must not vouch for a later entry of the same program)
	for _, pos := range []string{"first", "appended"} {
		if len(base.Programs) == 0 {
			break
		}
		obj, add := obj, add
		if pos == "appended" {
			obj0, add0 := obj, add
			obj = func() map[string]any {
				m := obj0()
				ps := obj0()["Programs"].([]any)
				m["Programs"] = append(m["Programs"].([]any), ps[0])
				return m
			}
			add = func(desc string, m map[string]any, class string) {
				if class == "valid" {
					class = "dontcare" // (two entries of one build in a report: not spoken of)
				}
				add0("appended-entry "+desc, m, class)
			}
		}
		prog := func(m map[string]any) map[string]any {
			ps := m["Programs"].([]any)
			if pos == "appended" {
				return ps[len(ps)-1].(map[string]any)
			}
			return ps[0].(map[string]any)
		}
		for _, f := range [][2]string{{"Program", "example.com/p9"}, {"Program", "example.com/p1x"}, {"Program", ""}, {"Version", "v9.9.9"}, {"Version", ""}, {"Version", "v1.0"},
			{"GoVersion", "go1.99.0"}, {"GoVersion", "go1.21"}, {"GOOS", "plan9"}, {"GOOS", ""}, {"GOARCH", "riscv64"}, {"GOARCH", "AMD64"}} {
			m := obj()
			prog(m)[f[0]] = f[1]
			add(fmt.Sprintf("prog.%s=%q", f[0], f[1]), m, "invalid")
		}
		for _, f := range [][2]string{{"Version", "v1.1.0"}, {"GoVersion", "go1.22.0"}, {"GOOS", "darwin"}, {"GOARCH", "arm64"}} {
			m := obj()
			prog(m)[f[0]] = f[1]
			add(fmt.Sprintf("prog.%s=%q", f[0], f[1]), m, "valid")
		}
		for _, c := range []string{"zz", "c:", "cc", "c:a", "d", "d:", "d:c", "d:{a,b}", "d:a,b", "e", "s", "C", "c\n", ""} {
			m := obj()
			prog(m)["Counters"].(map[string]any)[c] = 1
			add(fmt.Sprintf("counter %q", c), m, "invalid")
		}
		for _, c := range []string{"d:b"} {
			m := obj()
			prog(m)["Counters"].(map[string]any)[c] = 1
			add(fmt.Sprintf("counter %q", c), m, "valid")
		}
		for _, s := range []string{"t\nmain.f", "sx\nmain.f", "\nmain.f", "c\nmain.f", "S\nmain.f", "s \nmain.f"} {
			m := obj()
			prog(m)["Stacks"].(map[string]any)[s] = 1
			add(fmt.Sprintf("stack %q", s), m, "invalid")
		}
		for _, s := range []string{"s\nother.g:+2", "s", "s\n", "s\n\n"} {
			m := obj()
			prog(m)["Stacks"].(map[string]any)[s] = 1
			add(fmt.Sprintf("stack %q", s), m, "valid")
		}
		for _, v := range []any{1.5, "1", nil, []int{1}, 9.3e18, -9.3e18, true} {
			m := obj()
			prog(m)["Counters"].(map[string]any)["c"] = v
			cl := "invalid"
			if v == nil {
				cl = "dontcare" // JSON null leaves the value 0
			}
			add(fmt.Sprintf("value %v(%T)", v, v), m, cl)
		}
		for _, v := range []any{0, -1, 1 << 40} {
			m := obj()
			prog(m)["Counters"].(map[string]any)["c"] = v
			add(fmt.Sprintf("value %v", v), m, "valid")
		}
	}
	if len(base.Programs) > 0 {
		m := obj()
		m["Programs"] = []any{nil}
		add("Programs=[null]", m, "invalid")
		m = obj()
		m["Programs"] = append(m["Programs"].([]any), nil)
		add("Programs=[...,null]", m, "invalid")
		m = obj()
		m["Programs"] = "x"
		add("Programs=string", m, "invalid")
		m = obj()
		m["Programs"] = []any{map[string]any{}}
		add("Programs=[{}]", m, "invalid")
	}
	m := obj()
	m["Unknown"] = map[string]any{"a": 1}
	add("extra field", m, "dontcare")
	return out
}

func TestVerifC12(t *testing.T) {
	p := vrep.Env()
	res := vrep.New("C12", p)
	defer res.Guard()
	base, _ := vrep.Scratch("c12")
	res.Rule = "E3: 3 base reports x every single field deviation (14 invalid + 4 valid weeks, 8+4 configs, 8+8 X values, 12+4 build fields, 14+1 counters, 6+4 stacks, 7+3 values, null/ill-typed programs; the program-entry deviations also in a copy of the first entry appended behind the untouched entries) x {POST} plus 7 methods x 4 paths, truncation of a valid body at every byte offset, white-space padding to limit-1/limit/limit+1, BOM, array, null, trailing garbage, duplicate keys; each through the real newHandler chain with a file-system bucket;  plus chunked bodies, trailing data / second report / white space beyond the limit after a valid report, E2 sequences of valid uploads, and a loopback-TCP leg (sender half-closes after bodies cut at 5 positions x 3 repeats); classes = (expected class, status)"
	res.Assumptions = []string{"the GCS backend is not exercised", "requests are served through httptest recorders (no sockets)"}
	if p.Replay != "" {
		fmt.Println("C12 replay: cases are deterministic; re-run the quick check")
		return
	}
	srv := zzvNewServer(base)
	var reqs []zzvReq
	bases := zzvBaseReports()
	for _, name := range []string{"empty", "one", "two"} {
		reqs = append(reqs, zzvDeviations(name, bases[name])...)
	}
	{
		// Every pair of single-field deviations of the one-program report, merged key by key:
		// valid iff both are valid (a don't-care stays a don't-care).
		devs := zzvDeviations("one", bases["one"])
		baseObj := map[string]any{}
		json.Unmarshal(zzvJSON(bases["one"]), &baseObj)
		for i, a := range devs {
			for _, b := range devs[i+1:] {
				var ma, mb map[string]any
				if json.Unmarshal(a.body, &ma) != nil || json.Unmarshal(b.body, &mb) != nil {
					continue
				}
				merged, ok := zzvMerge(baseObj, ma, mb)
				if !ok {
					continue // both change the same field
				}
				class := "valid"
				switch {
				case a.class == "invalid" || b.class == "invalid":
					class = "invalid"
				case a.class == "dontcare" || b.class == "dontcare":
					class = "dontcare"
				}
				reqs = append(reqs, zzvReq{desc: "pair: " + a.desc + " + " + b.desc, method: "POST", path: "/upload/x", body: zzvJSON(merged), class: class})
			}
		}
	}
	valid := zzvJSON(bases["one"])
	for _, method := range []string{"GET", "PUT", "HEAD", "DELETE", "PATCH", "post", "OPTIONS"} {
		for _, path := range []string{"/upload/2023-01-01", "/upload/", "/upload/not-a-date", "/upload/2099-01-01"} {
			reqs = append(reqs, zzvReq{desc: method + " " + path, method: method, path: path, body: valid, class: "invalid"})
		}
	}
	for _, path := range []string{"/upload/", "/upload/not-a-date", "/upload/2099-01-01", "/upload/a/b/c", "/upload/%2e%2e/x"} {
		reqs = append(reqs, zzvReq{desc: "POST " + path, method: "POST", path: path, body: valid, class: "valid"})
	}
	for i := 0; i < len(valid); i++ {
		reqs = append(reqs, zzvReq{desc: fmt.Sprintf("truncated at %d", i), method: "POST", path: "/upload/x", body: valid[:i], class: "invalid"})
	}
	if p.Thorough() {
		v2 := zzvJSON(bases["two"])
		for i := 0; i < len(v2); i++ {
			reqs = append(reqs, zzvReq{desc: fmt.Sprintf("two truncated at %d", i), method: "POST", path: "/upload/x", body: v2[:i], class: "invalid"})
			b := append([]byte{}, v2...)
			b[i] ^= 0x01
			reqs = append(reqs, zzvReq{desc: fmt.Sprintf("two bit flipped at %d", i), method: "POST", path: "/upload/x", body: b, class: "dontcare"})
		}
	}
	for _, total := range []int{zzvLimit - 1, zzvLimit, zzvLimit + 1, 2 * zzvLimit} {
		pad := bytes.Repeat([]byte(" "), total-len(valid))
		cl := "valid"
		if total > zzvLimit {
			cl = "invalid"
		}
		reqs = append(reqs, zzvReq{desc: fmt.Sprintf("leading padding to %d bytes", total), method: "POST", path: "/upload/x", body: append(pad, valid...), class: cl})
	}
	// A valid report whose encoded size is just below / above the limit.
	for _, target := range []int{zzvLimit - 200, zzvLimit + 200} {
		r := *bases["one"]
		pr := *r.Programs[0]
		pr.Stacks = map[string]int64{}
		for i := 0; len(zzvJSON(&r)) < target; i++ {
			pr.Stacks[fmt.Sprintf("s\nf%05d.%s", i, strings.Repeat("x", 500))] = 1
			r.Programs = []*telemetry.ProgramReport{&pr}
		}
		cl := "valid"
		if len(zzvJSON(&r)) > zzvLimit {
			cl = "invalid"
		}
		reqs = append(reqs, zzvReq{desc: fmt.Sprintf("large report of %d bytes", len(zzvJSON(&r))), method: "POST", path: "/upload/x", body: zzvJSON(&r), class: cl})
	}
	reqs = append(reqs,
		zzvReq{desc: "BOM", method: "POST", path: "/upload/x", body: append([]byte("\xef\xbb\xbf"), valid...), class: "invalid"},
		zzvReq{desc: "array", method: "POST", path: "/upload/x", body: append(append([]byte("["), valid...), ']'), class: "invalid"},
		zzvReq{desc: "null", method: "POST", path: "/upload/x", body: []byte("null"), class: "invalid"},
		zzvReq{desc: "empty body", method: "POST", path: "/upload/x", body: nil, class: "invalid"},
		zzvReq{desc: "number", method: "POST", path: "/upload/x", body: []byte("42"), class: "invalid"},
		zzvReq{desc: "string", method: "POST", path: "/upload/x", body: []byte(`"2023-01-01"`), class: "invalid"},
		// The body must be one JSON report: anything but white space after it makes the body something else.
		zzvReq{desc: "trailing garbage", method: "POST", path: "/upload/x", body: append(append([]byte{}, valid...), []byte("}}garbage")...), class: "invalid"},
		zzvReq{desc: "two values", method: "POST", path: "/upload/x", body: append(append([]byte{}, valid...), valid...), class: "invalid"},
		zzvReq{desc: "trailing report with hostile week", method: "POST", path: "/upload/x", body: append(append([]byte{}, valid...), []byte(`{"Week":"../../x"`)...), class: "invalid"},
		zzvReq{desc: "trailing newline", method: "POST", path: "/upload/x", body: append(append([]byte{}, valid...), '\n'), class: "valid"},
		zzvReq{desc: "all four JSON white-space characters trailing", method: "POST", path: "/upload/x", body: append(append([]byte{}, valid...), []byte(" \t\r\n")...), class: "valid"},
		zzvReq{desc: "trailing vertical tab (white space for Go, not for JSON)", method: "POST", path: "/upload/x", body: append(append([]byte{}, valid...), '\v'), class: "invalid"},
		zzvReq{desc: "trailing form feed", method: "POST", path: "/upload/x", body: append(append([]byte{}, valid...), '\f'), class: "invalid"},
		zzvReq{desc: "trailing no-break space", method: "POST", path: "/upload/x", body: append(append([]byte{}, valid...), []byte("\u00a0")...), class: "invalid"},
		zzvReq{desc: "trailing NEL", method: "POST", path: "/upload/x", body: append(append([]byte{}, valid...), []byte("\u0085")...), class: "invalid"},
		zzvReq{desc: "trailing line separator after blanks", method: "POST", path: "/upload/x", body: append(append([]byte{}, valid...), []byte("  \u2028")...), class: "invalid"},
		zzvReq{desc: "trailing white space within the limit", method: "POST", path: "/upload/x", body: append(append([]byte{}, valid...), bytes.Repeat([]byte(" \n"), 1000)...), class: "valid"},
		zzvReq{desc: "trailing white space beyond the limit", method: "POST", path: "/upload/x", body: append(append([]byte{}, valid...), bytes.Repeat([]byte(" "), 4*zzvLimit)...), class: "invalid"},
		zzvReq{desc: "trailing garbage beyond the limit", method: "POST", path: "/upload/x", body: append(append([]byte{}, valid...), bytes.Repeat([]byte("x"), 4*zzvLimit)...), class: "invalid"},
		zzvReq{desc: "duplicate Week key (last invalid)", method: "POST", path: "/upload/x", body: []byte(`{"Week":"2023-01-01","Week":"../x","Config":"v1.0.0","X":0.5}`), class: "invalid"},
		zzvReq{desc: "duplicate Week key (last valid)", method: "POST", path: "/upload/x", body: []byte(`{"Week":"../x","Week":"2023-01-01","Config":"v1.0.0","X":0.5}`), class: "valid"},
		zzvReq{desc: "lower-case keys", method: "POST", path: "/upload/x", body: []byte(`{"week":"2023-01-01","config":"v1.0.0","x":0.5}`), class: "dontcare"},
		zzvReq{desc: "deep nesting", method: "POST", path: "/upload/x", body: []byte(strings.Repeat("[", 50000)), class: "invalid"},
		zzvReq{desc: "binary", method: "POST", path: "/upload/x", body: bytes.Repeat([]byte{0xff, 0x00, 0x7b}, 1000), class: "invalid"},
	)

	uploaded := filepath.Join(srv.cfg.LocalStorage, "uploaded")
	// Every request is sent twice: with a declared length and chunked.
	for i := 0; i < 2*len(reqs); i++ {
		rq := reqs[i/2]
		declared := i%2 == 0
		if !declared {
			rq.desc += " (no Content-Length)"
		}
		if !p.Mine(i) {
			continue
		}
		// Fresh storage per request keeps "exactly one new object" checkable.
		os.RemoveAll(srv.cfg.LocalStorage)
		os.MkdirAll(uploaded, 0o777)
		before := ref.Snapshot(srv.root)
		status, pan := srv.doLen(rq.method, rq.path, rq.body, declared)
		after := ref.Snapshot(srv.root)
		res.Evaluations++
		diff := before.Diff(after)
		fail := func(sig, format string, args ...any) {
			res.Violate(sig, fmt.Sprintf(format, args...)+" ["+rq.desc+"]", map[string]any{"case": rq.desc, "method": rq.method, "path": rq.path, "body_prefix": string(rq.body[:min(len(rq.body), 200)])})
		}
		if pan != nil {
			fail("handler-panic", "handler chain panicked: %v", pan)
			continue
		}
		if status >= 500 {
			fail("5xx", "status %d", status)
		}
		for _, d := range diff {
			if !strings.HasPrefix(d, "created storage/uploaded/") && !strings.HasPrefix(d, "created storage/uploaded") {
				fail("write-outside-bucket", "change outside the upload bucket: %s", d)
			}
		}
		switch rq.class {
		case "valid":
			var rep telemetry.Report
			json.Unmarshal(bytes.TrimLeft(rq.body, " "), &rep)
			if status != 200 {
				fail("valid-report-refused", "valid report answered %d", status)
				break
			}
			want := fmt.Sprintf("storage/uploaded/%s/%g.json", rep.Week, rep.X)
			var files []string
			for _, d := range diff {
				if strings.HasSuffix(d, ".json") {
					files = append(files, d)
				}
			}
			if len(files) != 1 || files[0] != "created "+want {
				fail("object-name", "stored objects %v, want exactly %s", files, want)
				break
			}
			data, _ := os.ReadFile(filepath.Join(srv.root, want))
			var got telemetry.Report
			if err := json.Unmarshal(data, &got); err != nil || string(zzvJSON(&got)) != string(zzvJSON(&rep)) {
				fail("object-content", "stored object does not decode to the report sent (%v)", err)
			}
		case "invalid":
			if status < 400 || status >= 500 {
				fail("invalid-request-status", "invalid request answered %d", status)
			}
			if len(diff) > 0 {
				fail("invalid-request-stored", "invalid request changed the storage: %v", diff)
			}
		}
		res.Class(fmt.Sprintf("%s/%d", rq.class, status))
		if i%97 == 0 {
			res.Sample(8, map[string]any{"case": rq.desc, "class": rq.class, "status": status})
		}
	}
	// E2: sequences of valid uploads, including different reports with the same week and X: after
	// every accepted request the named object decodes to the report just sent.
	if p.Mine(0) {
		mk := func(week string, x float64, c int64) *telemetry.Report {
			r := *bases["one"]
			pr := *r.Programs[0]
			pr.Counters = map[string]int64{"c": c}
			r.Programs = []*telemetry.ProgramReport{&pr}
			r.Week, r.X = week, x
			return &r
		}
		pool := []*telemetry.Report{mk("2023-01-01", 0.5, 1), mk("2023-01-01", 0.5, 2), mk("2023-01-01", 0.25, 3), mk("2023-01-08", 0.5, 4), bases["empty"]}
		var seqs [][]int
		for a := range pool {
			for b := range pool {
				seqs = append(seqs, []int{a, b})
				for c := range pool {
					seqs = append(seqs, []int{a, b, c})
				}
			}
		}
		for _, seq := range seqs {
			os.RemoveAll(srv.cfg.LocalStorage)
			os.MkdirAll(uploaded, 0o777)
			latest := map[string]*telemetry.Report{}
			for _, i := range seq {
				rep := pool[i]
				status, pan := srv.do("POST", "/upload/x", zzvJSON(rep))
				res.Evaluations++
				if pan != nil || status != 200 {
					res.Violate("valid-report-refused", fmt.Sprintf("valid report answered %d in sequence %v", status, seq), map[string]any{"sequence": seq})
					continue
				}
				latest[fmt.Sprintf("%s/%g.json", rep.Week, rep.X)] = rep
				for name, want := range latest {
					data, err := os.ReadFile(filepath.Join(uploaded, name))
					var got telemetry.Report
					if err != nil || json.Unmarshal(data, &got) != nil || string(zzvJSON(&got)) != string(zzvJSON(want)) {
						res.Violate("object-content-after-sequence", fmt.Sprintf("after the uploads %v the object %s does not decode to the report last sent under that name", seq, name), map[string]any{"sequence": seq})
					}
				}
			}
			res.Class(fmt.Sprintf("sequence/len=%d/objects=%d", len(seq), len(latest)))
		}
	}
	// Sender behaviours that only exist on a real connection: the handler chain is served over loopback TCP and
	// the client, after sending what it sends, shuts down its sending side (as `nc -N` or a dying client does).
	// A body cut short of its declared length is an invalid request (4xx, nothing stored); a complete valid
	// report is stored and acknowledged.
	if p.Mine(1) {
		tsrv := zzvNewServer(base)
		ts := httptest.NewServer(tsrv.handler)
		send := func(req string) string {
			c, err := net.Dial("tcp", strings.TrimPrefix(ts.URL, "http://"))
			if err != nil {
				return "dial: " + err.Error()
			}
			defer c.Close()
			c.Write([]byte(req))
			c.(*net.TCPConn).CloseWrite()
			c.SetReadDeadline(time.Now().Add(20 * time.Second))
			line, _ := bufio.NewReader(c).ReadString('\n')
			return strings.TrimSpace(line)
		}
		full := string(zzvJSON(bases["one"]))
		for i, cut := range []int{0, 1, len(full) / 2, len(full) - 1, len(full)} {
			for rep := 0; rep < 3; rep++ {
				before := ref.Snapshot(tsrv.root)
				body := full[:cut]
				st := send(fmt.Sprintf("POST /upload/x HTTP/1.1\r\nHost: telemetry.test\r\nContent-Length: %d\r\n\r\n%s", len(full), body))
				res.Evaluations++
				desc := fmt.Sprintf("body cut after %d of %d declared bytes, then the sending side is shut down", cut, len(full))
				code := 0
				fmt.Sscanf(st, "HTTP/1.1 %d", &code)
				time.Sleep(50 * time.Millisecond) // a handler abandoned by the timeout wrapper may still be writing
				diff := before.Diff(ref.Snapshot(tsrv.root))
				switch {
				case code >= 500:
					res.Violate("transport:5xx-to-half-closed-sender", fmt.Sprintf("status line %q: %s", st, desc), map[string]any{"cut": cut})
				case cut < len(full) && (code < 400 || len(diff) > 0):
					res.Violate("transport:truncated-body-accepted", fmt.Sprintf("status line %q, disk changes %v: %s", st, diff, desc), map[string]any{"cut": cut})
				case cut == len(full) && (code != 200 || len(diff) == 0):
					res.Violate("transport:valid-report-refused", fmt.Sprintf("status line %q, disk changes %v: %s", st, diff, desc), map[string]any{"cut": cut})
				}
				res.Class(fmt.Sprintf("transport/cut=%d/status=%dxx", i, code/100))
				os.RemoveAll(filepath.Join(tsrv.cfg.LocalStorage, "uploaded"))
				os.MkdirAll(filepath.Join(tsrv.cfg.LocalStorage, "uploaded"), 0o777)
			}
		}
		ts.Close()
	}
	res.Transitions = res.Evaluations
	res.States = res.Evaluations
	res.Validated = res.Evaluations
	res.Write()
}

// zzvMerge applies the top-level changes of a and b (each relative to base) to base. Changes inside
// Programs[0] are merged one level deeper. It reports false when both change the same field.
func zzvMerge(base, a, b map[string]any) (map[string]any, bool) {
	out := map[string]any{}
	for k, v := range base {
		out[k] = v
	}
	changed := map[string]bool{}
	apply := func(m map[string]any) bool {
		keys := map[string]bool{}
		for k := range base {
			keys[k] = true
		}
		for k := range m {
			keys[k] = true
		}
		for k := range keys {
			bv, _ := json.Marshal(base[k])
			mv, _ := json.Marshal(m[k])
			_, inM := m[k]
			_, inB := base[k]
			if string(bv) == string(mv) && inM == inB {
				continue
			}
			if changed[k] {
				return false
			}
			changed[k] = true
			if inM {
				out[k] = m[k]
			} else {
				delete(out, k)
			}
		}
		return true
	}
	if !apply(a) || !apply(b) {
		return nil, false
	}
	return out, true
}
