//go:build verif

package storage

// C18 — storage buckets confine, round-trip and list objects correctly.
// Engine E2: breadth-first search over write sequences on the real FSBucket
// (state = the model map, successor = replay on a fresh directory + one
// write); every read and every prefix listing is evaluated in every state
// against a map model. E3: every object name the services construct resolves
// inside the bucket directory.

import (
	"bytes"
	"context"
	"errors"
	"fmt"
	"io"
	"os"
	"path/filepath"
	"sort"
	"strings"
	"testing"

	"golang.org/x/telemetry/internal/verifshim/ref"
	"golang.org/x/telemetry/internal/verifshim/vrep"
)

var zzvNames = []string{"a", "b", "ab", "a/b", "a/c", "a/b/c", "2023-01-01/0.5.json", "2023-01-01/5e-05.json", "2023-01-02/0.5.json", "2023-01-01.json", "2023-01-01_2023-01-07.json", "2023-01-01/-0.5.json"}
var zzvPrefixes = []string{"", "a", "a/", "ab", "a/b", "2023-01-01", "2023-01-01/", "2023-01-01/0", "2023-01-0", "zz", "b/", "2023-01-01."}

type zzvWrite struct {
	name    int
	content int
}

var zzvContents = [][]byte{{}, []byte("x"), bytes.Repeat([]byte("0123456789abcdef"), 70*64)}

// conflicts reports whether writing name is inherently impossible on a file
// system holding the model's objects (the name is a directory prefix of an
// object, or a proper prefix of it is an object).
func zzvConflicts(model map[string][]byte, name string) bool {
	for k := range model {
		if strings.HasPrefix(k, name+"/") || strings.HasPrefix(name, k+"/") {
			return true
		}
	}
	return false
}

func zzvBuildBucket(base string, hist []zzvWrite) (*FSBucket, string, map[string][]byte, []string) {
	dir, err := os.MkdirTemp(base, "b")
	if err != nil {
		panic(err)
	}
	bh, err := NewFSBucket(context.Background(), dir, "bucket")
	if err != nil {
		panic(err)
	}
	b := bh.(*FSBucket)
	model := map[string][]byte{}
	var errs []string
	for _, w := range hist {
		name, content := zzvNames[w.name], zzvContents[w.content]
		before := ref.Snapshot(dir)
		wr, err := b.Object(name).NewWriter(context.Background())
		if err == nil {
			_, err = wr.Write(content)
			if cerr := wr.Close(); err == nil {
				err = cerr
			}
		}
		switch {
		case zzvConflicts(model, name):
			if err == nil {
				errs = append(errs, fmt.Sprintf("write of %q succeeded although it collides with an existing object path", name))
			} else if d := before.Diff(ref.Snapshot(dir)); len(d) > 0 {
				errs = append(errs, fmt.Sprintf("refused write of %q changed the disk: %v", name, d))
			}
		case err != nil:
			errs = append(errs, fmt.Sprintf("write of %q failed: %v", name, err))
		default:
			model[name] = content
		}
		// Listings are steps of the history too: the same handle lists the bucket, and the written name's
		// first component, after every write (a handle that remembers an earlier listing must not serve it).
		prefixes := []string{""}
		if i := strings.Index(name, "/"); i >= 0 {
			prefixes = append(prefixes, name[:i+1])
		}
		for _, pre := range prefixes {
			var want []string
			for k := range model {
				if strings.HasPrefix(k, pre) {
					want = append(want, k)
				}
			}
			sort.Strings(want)
			got, lerr := zzvList(b, pre)
			if lerr != "" || fmt.Sprint(got) != fmt.Sprint(want) {
				errs = append(errs, fmt.Sprintf("LIST:listing with prefix %q right after the write of %q returns %v %s, stored objects with that prefix are %v", pre, name, got, lerr, want))
			}
		}
	}
	return b, dir, model, errs
}

// zzvList lists a prefix on the given handle (sorted names; a panic or an error is reported as text).
func zzvList(b *FSBucket, prefix string) (got []string, problem string) {
	defer func() {
		if r := recover(); r != nil {
			problem = fmt.Sprintf("(panic: %v)", r)
		}
	}()
	it := b.Objects(context.Background(), prefix)
	for {
		n, err := it.Next()
		if errors.Is(err, ErrObjectIteratorDone) {
			break
		}
		if err != nil {
			return got, fmt.Sprintf("(error: %v)", err)
		}
		got = append(got, n)
	}
	sort.Strings(got)
	return got, ""
}

func zzvCheckBucket(res *vrep.Result, b *FSBucket, dir string, model map[string][]byte, hist string) {
	ctx := context.Background()
	fail := func(sig, format string, args ...any) {
		res.Violate(sig, fmt.Sprintf(format, args...)+" after writes "+hist, map[string]any{"writes": hist})
	}
	for _, name := range zzvNames {
		r, err := b.Object(name).NewReader(ctx)
		want, present := model[name]
		switch {
		case present:
			if err != nil {
				fail("read-after-write", "read of %q: %v", name, err)
				continue
			}
			got, rerr := io.ReadAll(r)
			r.Close()
			if rerr != nil || !bytes.Equal(got, want) {
				fail("read-after-write", "read of %q returns %d bytes (err %v), %d were written", name, len(got), rerr, len(want))
			}
		default:
			if !errors.Is(err, ErrObjectNotExist) {
				if err == nil {
					r.Close()
				}
				fail("absent-not-reported", "read of absent %q: err=%v, want ErrObjectNotExist", name, err)
			}
		}
	}
	for _, p := range zzvPrefixes {
		var want []string
		for k := range model {
			if strings.HasPrefix(k, p) {
				want = append(want, k)
			}
		}
		sort.Strings(want)
		var got []string
		var pan any
		func() {
			defer func() { pan = recover() }()
			it := b.Objects(ctx, p)
			for {
				n, err := it.Next()
				if errors.Is(err, ErrObjectIteratorDone) {
					break
				}
				if err != nil {
					fail("list-error", "listing %q: %v", p, err)
					break
				}
				got = append(got, n)
			}
		}()
		if pan != nil {
			fail("list-panic", "listing with prefix %q panics: %v", p, pan)
			continue
		}
		sorted := append([]string{}, got...)
		sort.Strings(sorted)
		if fmt.Sprint(sorted) != fmt.Sprint(want) {
			fail("list-differs", "listing with prefix %q returns %v, stored objects with that prefix are %v", p, got, want)
		}
	}
	// Nothing outside the bucket directory.
	for k := range ref.Snapshot(dir) {
		if k != "." && k != "bucket" && !strings.HasPrefix(k, "bucket/") {
			fail("outside-bucket", "path %s created outside the bucket directory", k)
		}
	}
}

func TestVerifC18(t *testing.T) {
	p := vrep.Env()
	res := vrep.New("C18", p)
	defer res.Guard()
	base, _ := vrep.Scratch("c18")
	res.Rule = "E2: BFS over write sequences (12 names incl. nested, shared prefixes and the services' date/X shapes x 3 contents incl. 70 KiB) to depth 3 (thorough 4), state = model map, every read of every name and every listing of 12 prefixes checked in every state, and the same handle lists the bucket and the written name's first component after every write of the history; E3: every object name the upload, merge and chart services construct from validated weeks, X values and date ranges resolves inside the bucket directory"
	res.Assumptions = []string{"file-system backend only (no GCS emulator offline)", "writing a name that is a directory prefix of a stored object (or lies below a stored object) cannot succeed on a file system: such a write must fail and change nothing; reading such an absent name must still report not-exist"}
	depth := 3
	if p.Thorough() {
		depth = 4
	}
	type node struct{ hist []zzvWrite }
	seen := map[string]bool{}
	frontier := []node{{}}
	states, transitions := 0, 0
	for d := 0; d <= depth && len(frontier) > 0; d++ {
		var next []node
		for ni, nd := range frontier {
			if d > 0 && !p.Mine(ni) && d == 1 {
				continue
			}
			b, dir, model, errs := zzvBuildBucket(base, nd.hist)
			hs := fmt.Sprint(nd.hist)
			for _, e := range errs {
				sig := "write"
				if strings.HasPrefix(e, "LIST:") {
					sig, e = "list-differs:between-writes", strings.TrimPrefix(e, "LIST:")
				}
				res.Violate(sig, e+" after writes "+hs, map[string]any{"writes": hs})
			}
			zzvCheckBucket(res, b, dir, model, hs)
			os.RemoveAll(dir)
			states++
			res.Class(fmt.Sprintf("objects=%d", len(model)))
			if states%300 == 1 {
				res.Sample(6, map[string]any{"writes": hs, "objects": len(model)})
			}
			if d == depth {
				continue
			}
			for n := range zzvNames {
				for c := range zzvContents {
					h := append(append([]zzvWrite{}, nd.hist...), zzvWrite{n, c})
					// canonical key: resulting model
					_, dir2, m2, _ := zzvBuildBucket(base, h)
					os.RemoveAll(dir2)
					transitions++
					var ks []string
					for k, v := range m2 {
						ks = append(ks, fmt.Sprintf("%s=%d", k, len(v)))
					}
					sort.Strings(ks)
					key := strings.Join(ks, ",") + fmt.Sprintf("|refused=%v", len(m2) == len(nd.hist) && false)
					if seen[key] {
						continue
					}
					seen[key] = true
					next = append(next, node{h})
				}
			}
		}
		frontier = next
		if p.Expired() {
			res.Exhaustive = false
			break
		}
	}
	res.States = int64(states)
	res.Transitions = int64(transitions)
	res.Evaluations = int64(states)

	// E3: constructed names stay inside the bucket.
	if p.Mine(0) {
		dir, _ := os.MkdirTemp(base, "n")
		bh, _ := NewFSBucket(context.Background(), dir, "bucket")
		b := bh.(*FSBucket)
		root := filepath.Join(dir, "bucket")
		var names []string
		for _, w := range []string{"2023-01-01", "1970-01-01", "2099-12-31", "2024-02-29"} {
			for _, x := range []float64{0.5, -0.5, 1e-300, 1e300, 5e-05, 1, 123456789, 0.1234567890123456} {
				names = append(names, fmt.Sprintf("%s/%g.json", w, x))
			}
			names = append(names, w+".json", w+"_"+"2099-12-31.json")
		}
		for _, n := range names {
			fn := filepath.Clean(NewFSObject(b, n).(*FSObject).Filename())
			res.Evaluations++
			if !strings.HasPrefix(fn, root+string(filepath.Separator)) {
				res.Violate("name-escapes-bucket", fmt.Sprintf("object name %q resolves to %s outside %s", n, fn, root), nil)
			}
			res.Class("name/inside")
		}
	}
	// Names that are not made of ordinary components: whatever the backend answers, nothing may be created,
	// and nothing read, outside the bucket's directory.
	if p.Mine(1) {
		for _, n := range []string{"../x", "a/../../x", "..", "../bucket2/x", "a/../b", "../../x.json", "./../x"} {
			dir, _ := os.MkdirTemp(base, "h")
			bh, _ := NewFSBucket(context.Background(), dir, "bucket")
			os.WriteFile(filepath.Join(dir, "x"), []byte("OUTSIDE"), 0o666)
			os.WriteFile(filepath.Join(filepath.Dir(dir), "x.json"), []byte("OUTSIDE"), 0o666)
			before := ref.Snapshot(dir)
			if w, err := bh.Object(n).NewWriter(context.Background()); err == nil {
				w.Write([]byte("data"))
				w.Close()
			}
			res.Evaluations++
			for _, d := range before.Diff(ref.Snapshot(dir)) {
				if !strings.Contains(d, " bucket/") {
					res.Violate("name-escapes-bucket", fmt.Sprintf("writing object %q: %s (outside the bucket directory)", n, d), nil)
				}
			}
			if r, err := bh.Object(n).NewReader(context.Background()); err == nil {
				got, _ := io.ReadAll(r)
				r.Close()
				if bytes.Contains(got, []byte("OUTSIDE")) {
					res.Violate("name-escapes-bucket", fmt.Sprintf("reading object %q returns the content of a file outside the bucket directory", n), nil)
				}
			}
			os.Remove(filepath.Join(filepath.Dir(dir), "x.json"))
			os.RemoveAll(dir)
			res.Class("name/hostile")
		}
	}
	res.Validated = res.Evaluations
	res.Write()
}
