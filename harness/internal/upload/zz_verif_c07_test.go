//go:build verif

package upload

// C07 — each expired counter file is folded into exactly one weekly report.
// Sequential leg (E3/E2): sets of counter files (kinds: plain, empty,
// unparseable, missing end time, active, boundary) x pre-existing reports x
// mode x start-time boundary, followed by a second and third run.
// Concurrent leg (E1): 2-3 uploader runs over one directory, every
// file-system call a scheduling point, preemption-bounded DFS.

import (
	"bytes"
	"encoding/json"
	"fmt"
	"os"
	"path/filepath"
	"sort"
	"strings"
	"testing"
	"time"

	"golang.org/x/telemetry/internal/telemetry"
	"golang.org/x/telemetry/internal/verifshim/ref"
	"golang.org/x/telemetry/internal/verifshim/sched"
	"golang.org/x/telemetry/internal/verifshim/vatomic"
	"golang.org/x/telemetry/internal/verifshim/vhttp"
	"golang.org/x/telemetry/internal/verifshim/vos"
	"golang.org/x/telemetry/internal/verifshim/vrand"
	"golang.org/x/telemetry/internal/verifshim/vrep"
)

type zzvFileSpec struct {
	build string // A | B
	kind  string // plain | empty | badprefix | noend | active | boundary
}

var (
	zzvBuildA = ref.Build{"example.com/p1", "v1.0.0", "go1.21.0", "linux", "amd64"}
	zzvBuildB = ref.Build{"example.com/p1", "v1.1.0", "go1.21.0", "linux", "amd64"} // same program, other version
	zzvBuildC = ref.Build{"example.com/p2", "v1.0.0", "go1.21.0", "linux", "arm64"}
	// builds differing from A in exactly one of GOARCH, GOOS, Go version
	zzvBuildD = ref.Build{"example.com/p1", "v1.0.0", "go1.21.0", "linux", "arm64"}
	zzvBuildE = ref.Build{"example.com/p1", "v1.0.0", "go1.21.0", "darwin", "amd64"}
	zzvBuildF = ref.Build{"example.com/p1", "v1.0.0", "go1.22.0", "linux", "amd64"}
)

type zzvPlaced struct {
	path     string
	week     string // "" for unreadable
	end      time.Time
	readable bool
	lf       ref.LocalFile
	bytes    []byte
}

// place writes one file of the given kind; S0 is the boundary instant.
func (u *zzvU) place(fs zzvFileSpec, i int, s0 time.Time) zzvPlaced {
	b := zzvBuildA
	if fs.build == "B" {
		b = zzvBuildB
	}
	switch fs.build {
	case "C":
		b = zzvBuildC
	case "D":
		b = zzvBuildD
	case "E":
		b = zzvBuildE
	case "F":
		b = zzvBuildF
	}
	w1 := zzvDate("2024-01-07")
	begin := w1.Add(-4 * zzvDay)
	// (the last two names differ only in a byte that is not valid UTF-8)
	counts := map[string]uint64{"c": uint64(1 + i), "d:a": uint64(10 + i), "s\nF": uint64(100 + i), "a\xff": uint64(1000 + i), "a\xfe": uint64(2000 + i)}
	pl := zzvPlaced{readable: true, end: w1}
	switch fs.kind {
	case "plain":
	case "saturated":
		// cells at and beyond the range of a report's integers (the sums saturate; either file may come first)
		counts = map[string]uint64{"c": ^uint64(0) - uint64(i), "d:a": 1<<63 - uint64(5+i), "s\nF": 1 << 63}
	case "empty":
		counts = map[string]uint64{}
	case "active":
		pl.end = s0.Add(4 * zzvDay)
	case "boundary":
		pl.end = s0 // ends exactly at the boundary instant
		begin = s0.Add(-7 * zzvDay)
	}
	switch fs.kind {
	case "badprefix":
		pl.path = u.writeCount(b, begin, pl.end, counts)
		data, _ := os.ReadFile(pl.path)
		copy(data, "# telemetry/counter file v9\n")
		os.WriteFile(pl.path, data, 0o666)
		pl.readable = false
	case "noend":
		meta := ref.MetaString([][2]string{{"TimeBegin", begin.Format(time.RFC3339)}, {"Program", b.Program}, {"Version", b.Version}, {"GoVersion", b.GoVersion}, {"GOOS", b.GOOS}, {"GOARCH", b.GOARCH}})
		pl.path = u.writeCountRaw(b, begin, meta, counts)
		pl.readable = false
	default:
		pl.path = u.writeCount(b, begin, pl.end, counts)
	}
	if pl.readable {
		pl.week = pl.end.Format("2006-01-02")
	}
	pl.lf = ref.LocalFile{Build: b, Counts: counts}
	pl.bytes, _ = os.ReadFile(pl.path)
	return pl
}

type zzvC07Case struct {
	Files   string `json:"files"`
	Prior   string `json:"prior"`
	Mode    string `json:"mode"`
	Start   string `json:"start"`
}

// zzvC07Oracle checks one run's outcome. reportsBefore is the set of reports
// that existed before the run (by relative path -> bytes).
func zzvC07Oracle(fail func(sig, format string, args ...any), u *zzvU, placed []zzvPlaced, start time.Time, reportsBefore map[string][]byte, mode string) {
	reports := map[string][]byte{}
	for _, sub := range []string{"local", "upload"} {
		for _, n := range u.list(sub) {
			if strings.HasSuffix(n, ".json") {
				data, _ := os.ReadFile(filepath.Join(u.dir, sub, n))
				reports[sub+"/"+n] = data
			}
		}
	}
	hasReport := func(week string, in map[string][]byte) bool {
		return in["local/local."+week+".json"] != nil || in["local/"+week+".json"] != nil || in["upload/"+week+".json"] != nil
	}
	byWeek := map[string][]zzvPlaced{}
	for _, pl := range placed {
		if pl.readable {
			byWeek[pl.week] = append(byWeek[pl.week], pl)
		}
	}
	for week, files := range byWeek {
		finished := files[0].end.Before(start)
		nonEmpty := false
		var lfs []ref.LocalFile
		for _, f := range files {
			if len(f.lf.Counts) > 0 {
				nonEmpty = true
			}
			lfs = append(lfs, f.lf)
		}
		if finished && nonEmpty && !hasReport(week, reportsBefore) {
			data := reports["local/local."+week+".json"]
			if data == nil {
				fail("report-missing", "week %s: finished non-empty files and no prior report, but no local report was built", week)
				continue
			}
			var rep telemetry.Report
			if err := json.Unmarshal(data, &rep); err != nil {
				fail("report-unreadable", "week %s: local report is not valid JSON: %v", week, err)
				continue
			}
			got, _ := ref.ReportTriples(&rep)
			want := ref.SumFiles(lfs)
			if d := ref.DiffTriples(got, want); len(d) > 0 {
				fail("report-sums-differ", "week %s: local report differs from the sums over exactly its files: %s", week, strings.Join(d[:min(3, len(d))], "; "))
			}
			if rep.Week != week {
				fail("report-week-field", "week %s: report says Week=%q", week, rep.Week)
			}
		}
	}
	for _, pl := range placed {
		now, err := os.ReadFile(pl.path)
		gone := err != nil
		switch {
		case !pl.readable || !pl.end.Before(start):
			if gone || !bytes.Equal(now, pl.bytes) {
				fail("unfinished-or-unreadable-file-touched", "file %s (readable=%v, end %s, start %s) was removed or changed", filepath.Base(pl.path), pl.readable, pl.end.Format(time.RFC3339), start.Format(time.RFC3339Nano))
			}
		case gone && !hasReport(pl.week, reports):
			fail("file-removed-without-report", "file %s removed although no report exists for week %s", filepath.Base(pl.path), pl.week)
		case !gone && !bytes.Equal(now, pl.bytes):
			fail("counter-file-changed", "file %s changed", filepath.Base(pl.path))
		}
	}
	// Existing reports never change (an uploadable report may move to upload/ unchanged).
	for name, old := range reportsBefore {
		now := reports[name]
		if now == nil && strings.HasPrefix(name, "local/2") {
			now = reports["upload/"+strings.TrimPrefix(name, "local/")]
			if now == nil && mode == "on" {
				continue // discarded after a client error is C08's business; here the server always accepts
			}
		}
		if now == nil {
			fail("report-removed", "report %s disappeared", name)
		} else if !bytes.Equal(now, old) {
			fail("report-changed", "report %s changed", name)
		}
	}
}

func (u *zzvU) reports() map[string][]byte {
	out := map[string][]byte{}
	for _, sub := range []string{"local", "upload"} {
		for _, n := range u.list(sub) {
			if strings.HasSuffix(n, ".json") {
				data, _ := os.ReadFile(filepath.Join(u.dir, sub, n))
				out[sub+"/"+n] = data
			}
		}
	}
	return out
}

func zzvC07Sequential(res *vrep.Result, base string, p vrep.Params) {
	kinds := []string{"plain", "empty", "badprefix", "noend", "active", "boundary"}
	var specs []zzvFileSpec
	for _, b := range []string{"A", "B"} {
		for _, k := range kinds {
			specs = append(specs, zzvFileSpec{b, k})
		}
	}
	var sets [][]zzvFileSpec
	for _, a := range specs {
		sets = append(sets, []zzvFileSpec{a})
		for _, b := range specs {
			sets = append(sets, []zzvFileSpec{a, b})
		}
	}
	sets = append(sets, []zzvFileSpec{{"A", "saturated"}}, []zzvFileSpec{{"A", "plain"}, {"A", "saturated"}}, []zzvFileSpec{{"A", "saturated"}, {"A", "plain"}}, []zzvFileSpec{{"A", "saturated"}, {"A", "saturated"}}, []zzvFileSpec{{"A", "plain"}, {"B", "saturated"}})
	sets = append(sets, []zzvFileSpec{{"A", "plain"}, {"A", "plain"}, {"B", "plain"}}, []zzvFileSpec{{"A", "plain"}, {"A", "empty"}, {"C", "plain"}},
		[]zzvFileSpec{{"A", "plain"}, {"B", "plain"}, {"C", "plain"}}, []zzvFileSpec{{"A", "empty"}, {"A", "empty"}, {"B", "empty"}},
		// program builds that differ in a single field stay apart
		[]zzvFileSpec{{"A", "plain"}, {"D", "plain"}}, []zzvFileSpec{{"E", "plain"}, {"A", "plain"}}, []zzvFileSpec{{"A", "plain"}, {"F", "plain"}}, []zzvFileSpec{{"D", "plain"}, {"E", "plain"}, {"F", "plain"}})
	if p.Thorough() {
		for _, a := range specs[:6] {
			for _, b := range specs {
				for _, c := range specs {
					sets = append(sets, []zzvFileSpec{a, b, c})
				}
			}
		}
	}
	priors := []string{"none", "local", "ready", "uploaded"}
	s0 := time.Date(2024, 1, 10, 0, 0, 0, 0, time.UTC)
	starts := []struct {
		name string
		at   time.Time
	}{{"start=boundary", s0}, {"start=boundary+1ns", s0.Add(1)}}
	idx := 0
	for _, set := range sets {
		for _, prior := range priors {
			for _, mode := range []string{"local", "on"} {
				for _, st := range starts {
					idx++
					if !p.Mine(idx) {
						continue
					}
					cs := zzvC07Case{fmt.Sprint(set), prior, mode, st.name}
					u := zzvNewU(base)
					if mode == "on" {
						u.setModeRaw("on 2020-01-01")
					} else {
						u.setModeRaw("local")
					}
					var placed []zzvPlaced
					for i, fs := range set {
						placed = append(placed, u.place(fs, i, s0))
					}
					// A second week that always has one plain file of build C.
					w2 := u.writeCount(zzvBuildC, zzvDate("2023-12-28"), zzvDate("2023-12-31"), map[string]uint64{"c": 50})
					w2b, _ := os.ReadFile(w2)
					placed = append(placed, zzvPlaced{path: w2, week: "2023-12-31", end: zzvDate("2023-12-31"), readable: true, lf: ref.LocalFile{Build: zzvBuildC, Counts: map[string]uint64{"c": 50}}, bytes: w2b})
					body := []byte(`{"Week":"2024-01-07","X":0.5,"Config":"v1.2.3","Programs":[]}`)
					switch prior {
					case "local":
						os.WriteFile(filepath.Join(u.td.LocalDir(), "local.2024-01-07.json"), body, 0o666)
					case "ready":
						os.WriteFile(filepath.Join(u.td.LocalDir(), "2024-01-07.json"), body, 0o666)
					case "uploaded":
						os.WriteFile(filepath.Join(u.td.UploadDir(), "2024-01-07.json"), body, 0o666)
					}
					all := zzvAllApproving([]ref.LocalFile{{zzvBuildA, map[string]uint64{"c": 1, "d:a": 1, "s\nF": 1}}, {zzvBuildB, nil}, {zzvBuildC, nil}})
					zzvInstall(all, "v1.2.3", 0.5)
					fail := func(sig, format string, args ...any) {
						res.Violate(sig, fmt.Sprintf(format, args...)+fmt.Sprintf(" [files %v; prior %s; mode %s; %s]", set, prior, mode, st.name), cs)
					}
					start := st.at
					for run := 1; run <= 3; run++ {
						before := u.reports()
						err, pan := u.run(start)
						res.Transitions++
						if err != nil || pan != nil {
							fail("run-failed", "run %d: err=%v panic=%v", run, err, pan)
							break
						}
						zzvC07Oracle(func(sig, format string, args ...any) { fail(fmt.Sprintf("%s/run%d", sig, min(run, 2)), format, args...) }, u, placed, start, before, mode)
						if run == 2 {
							start = start.Add(12 * zzvDay) // a later run: the boundary and active files have expired by then
							// Meanwhile the programs kept counting into the files that were still active.
							for pi := range placed {
								pl := &placed[pi]
								if !pl.readable || pl.end.Before(st.at) {
									continue
								}
								if _, err := os.Stat(pl.path); err != nil {
									continue
								}
								data, _ := os.ReadFile(pl.path)
								cf, err := ref.DecodeCounterFile(data)
								if err != nil {
									continue
								}
								w := ref.NewCFWriter(cf.MetaRaw)
								newCounts := map[string]uint64{}
								for n, v := range pl.lf.Counts {
									newCounts[n] = v + 1000
								}
								if len(newCounts) == 0 {
									newCounts["late"] = 1
								}
								var names []string
								for n := range newCounts {
									names = append(names, n)
								}
								sort.Strings(names)
								for _, n := range names {
									w.Add(n, newCounts[n])
								}
								os.WriteFile(pl.path, w.Bytes(), 0o666)
								pl.lf.Counts = newCounts
								pl.bytes = w.Bytes()
							}
						}
					}
					res.Evaluations++
					reps := u.reports()
					res.Class(fmt.Sprintf("seq/reports=%d/mode=%s/prior=%s", len(reps), mode, prior))
					if res.Evaluations%400 == 1 {
						res.Sample(6, map[string]any{"leg": "sequential", "case": cs, "reports_after_3_runs": len(reps)})
					}
					u.close()
				}
			}
		}
		if p.Expired() {
			res.Exhaustive = false
			break
		}
	}
}

// --- concurrent leg -------------------------------------------------------------

type zzvC07Conc struct {
	u      *zzvU
	placed []zzvPlaced
	first  map[string][]byte // first complete content of each report
	errs   []string
	start  time.Time
}

func zzvC07ConcScenario(base string, name string, nUploaders int, mode string, set []zzvFileSpec) *sched.Scenario {
	s0 := time.Date(2024, 1, 10, 0, 0, 0, 0, time.UTC)
	return &sched.Scenario{
		Name:     name,
		MaxSteps: 4000,
		Setup: func(x *sched.Exec) {
			vos.Points, vos.Faults = true, false
			// Parsing a counter file touches only process-private memory: its
			// atomic loads are not scheduling points.
			vatomic.SharedOnly = func(uintptr) bool { return false }
			u := zzvNewU(base)
			r := &zzvC07Conc{u: u, first: map[string][]byte{}, start: s0.Add(1)}
			x.Scratch = r
			if mode == "on" {
				u.setModeRaw("on 2020-01-01")
			} else {
				u.setModeRaw("local")
			}
			for i, fs := range set {
				r.placed = append(r.placed, u.place(fs, i, s0))
			}
			all := zzvAllApproving([]ref.LocalFile{{zzvBuildA, map[string]uint64{"c": 1, "d:a": 1, "s\nF": 1}}, {zzvBuildB, nil}, {zzvBuildC, nil}})
			zzvInstall(all, "v1.2.3", 0.5)
			vrand.Next = func() [8]byte {
				id := 0
				if t := sched.Current(); t != nil {
					id = t.ID
				}
				return vrand.BytesForX(0.25 + 0.125*float64(id))
			}
			for i := 0; i < nUploaders; i++ {
				x.Go(fmt.Sprintf("uploader%d", i), func() {
					err, pan := u.run(r.start)
					if sched.Dead() {
						return
					}
					if err != nil || pan != nil {
						r.errs = append(r.errs, fmt.Sprintf("upload.Run failed: err=%v panic=%v", err, pan))
					}
				})
			}
			x.OnStep = func(x *sched.Exec) {
				// A report, once complete, never changes.
				for name, data := range u.reports() {
					if strings.HasPrefix(name, "local/2") {
						// The staging copy of the uploadable report may be re-created after
						// it was delivered and removed; what reaches the server is C08's subject.
						continue
					}
					var rep telemetry.Report
					if json.Unmarshal(data, &rep) != nil {
						continue // being written
					}
					if old, ok := r.first[name]; ok {
						if !bytes.Equal(old, data) {
							r.errs = append(r.errs, fmt.Sprintf("report %s changed after it was complete (a second, different report for the week)", name))
							r.first[name] = data
						}
					} else {
						r.first[name] = data
					}
				}
			}
		},
		Check: func(x *sched.Exec) ([]string, uint64) {
			r := x.Scratch.(*zzvC07Conc)
			var v []string
			seen := map[string]bool{}
			add := func(sig, format string, args ...any) {
				m := sig + ": " + fmt.Sprintf(format, args...)
				if !seen[m] {
					seen[m] = true
					v = append(v, m)
				}
			}
			for _, e := range r.errs {
				add("concurrent", "%s", e)
			}
			for _, t := range x.Threads {
				if t.Panic != nil {
					add("panic", "%v", t.Panic)
				}
			}
			if x.Deadlock || x.Horizon {
				add("no-return", "deadlock=%v horizon=%v", x.Deadlock, x.Horizon)
			}
			zzvC07Oracle(add, r.u, r.placed, r.start, map[string][]byte{}, mode)
			reps := r.u.reports()
			// One report per week: the local report and the uploadable / uploaded copy of a week carry
			// the same X (every uploader draws its own).
			xOf := map[string]map[float64]bool{}
			filesOf := map[string][]string{}
			for name, data := range reps {
				var rep telemetry.Report
				if json.Unmarshal(data, &rep) != nil || rep.Week == "" {
					continue
				}
				if xOf[rep.Week] == nil {
					xOf[rep.Week] = map[float64]bool{}
				}
				xOf[rep.Week][rep.X] = true
				filesOf[rep.Week] = append(filesOf[rep.Week], fmt.Sprintf("%s:X=%v", name, rep.X))
			}
			for _, wk := range zzvSortedStrings(filesOf) {
				if len(xOf[wk]) > 1 {
					sort.Strings(filesOf[wk])
					add("mixed-reports", "week %s has reports with different X (written by different uploaders): %v", wk, filesOf[wk])
				}
			}
			var names []string
			for n := range reps {
				names = append(names, n)
			}
			sort.Strings(names)
			return v, zzvHash(names, len(vhttp.Log), len(v))
		},
		Teardown: func(x *sched.Exec) { x.Scratch.(*zzvC07Conc).u.close() },
	}
}

func zzvSigC07(f sched.Found, msg string) string {
	sig := msg
	if i := strings.Index(msg, ": "); i >= 0 {
		sig = msg[:i]
	}
	if sig == "concurrent" {
		switch {
		case strings.Contains(msg, "changed after it was complete"):
			sig = "second-different-report"
		case strings.Contains(msg, "upload.Run failed"):
			sig = "run-failed"
		}
	}
	return "conc:" + sig
}

func TestVerifC07(t *testing.T) {
	p := vrep.Env()
	res := vrep.New("C07", p)
	defer res.Guard()
	base, _ := vrep.Scratch("c07")
	res.Rule = "sequential: all file sets of size 1-2 (thorough: 3) over {2 builds} x {plain, empty, unparseable, no end time, active, boundary} + mixed 3-file sets + files with cells at and beyond 2^63 (sums saturate, both file orders), x prior report {none, local, ready, uploaded} x mode {local,on} x start {boundary instant, +1ns}, 3 consecutive runs each; concurrent: all schedules of 2 (thorough: 3) uploader runs at file-system-call granularity up to the preemption bound; classes = report sets / end states"
	res.Assumptions = []string{"counter files come from the reference writer", "the server accepts every request in this check (C08 varies it)", "one week per concurrent scenario so no ranged map has two keys"}
	if p.Replay != "" {
		fmt.Println("C07 replay: sequential cases are deterministic (re-run the quick check); concurrent counterexamples carry their choice sequence in the artefact")
		return
	}
	zzvC07Sequential(res, base, p)
	// The location of the telemetry directory is arbitrary: a path that happens to contain a week's
	// date must not make that week look reported.
	if p.Mine(1) {
		s0 := time.Date(2024, 1, 10, 0, 0, 0, 1, time.UTC)
		for _, dirname := range []string{"plain-", "profile-2024-01-07-", "backup.2024-01-07.json-", "2023-12-24-"} {
			for _, mode := range []string{"on", "local"} {
				// (the last two are foreign files whose names merely contain the week's date)
				for _, ready := range []string{"none", "2023-12-24", "2023-12-17", "2024-01-07-notes", "notes-2024-01-07"} {
					u := zzvNewUNamed(base, dirname)
					if mode == "on" {
						u.setModeRaw("on 2020-01-01")
					} else {
						u.setModeRaw("local")
					}
					placed := []zzvPlaced{u.place(zzvFileSpec{"A", "plain"}, 0, s0), u.place(zzvFileSpec{"B", "plain"}, 1, s0)}
					if ready != "none" {
						os.WriteFile(filepath.Join(u.td.LocalDir(), ready+".json"), []byte(`{"Week":"`+ready+`","X":0.5,"Config":"v1.2.3","Programs":[]}`), 0o666)
					}
					all := zzvAllApproving([]ref.LocalFile{{zzvBuildA, map[string]uint64{"c": 1, "d:a": 1, "s\nF": 1}}, {zzvBuildB, nil}})
					zzvInstall(all, "v1.2.3", 0.5)
					before := u.reports()
					if strings.Contains(ready, "notes") {
						// what becomes of a foreign file is not this property's business
						delete(before, "local/"+ready+".json")
					}
					err, pan := u.run(s0)
					res.Evaluations++
					desc := fmt.Sprintf("directory %q, mode %s, ready report %s", dirname, mode, ready)
					fail := func(sig, format string, args ...any) {
						res.Violate(sig+"/dirname", fmt.Sprintf(format, args...)+" ["+desc+"]", map[string]any{"case": desc})
					}
					if err != nil || pan != nil {
						fail("run-failed", "err=%v panic=%v", err, pan)
					} else {
						zzvC07Oracle(fail, u, placed, s0, before, mode)
					}
					res.Class("dirname/" + dirname + mode)
					u.close()
				}
			}
		}
	}
	type cs struct {
		name string
		n    int
		mode string
		set  []zzvFileSpec
	}
	scns := []cs{
		{"U1-two-uploaders-local-two-builds", 2, "local", []zzvFileSpec{{"A", "plain"}, {"B", "plain"}}},
		{"U2-two-uploaders-on-same-build", 2, "on", []zzvFileSpec{{"A", "plain"}, {"A", "plain"}}},
		{"U3-two-uploaders-local-with-active", 2, "local", []zzvFileSpec{{"A", "plain"}, {"B", "active"}}},
	}
	if p.Thorough() {
		scns = append(scns, cs{"U4-three-uploaders-local", 3, "local", []zzvFileSpec{{"A", "plain"}, {"B", "plain"}}})
	}
	bounds := []int{0, 1, 2}
	if p.Thorough() {
		bounds = append(bounds, 3)
	}
	for _, sc := range scns {
		for _, b := range bounds {
			ex := &sched.Explorer{Sc: zzvC07ConcScenario(base, sc.name, sc.n, sc.mode, sc.set), Bounds: sched.Bounds{Preempt: b}, Deadline: p.Deadline, Shard: p.Shard, NShards: p.NShards}
			st := ex.Explore()
			zzvRecordU(res, st, zzvSigC07)
			if !st.Exhaustive {
				break
			}
		}
	}
	res.Validated = res.Evaluations
	if res.States == 0 {
		res.States = res.Evaluations
	}
	res.Write()
}

// zzvRecordU folds explorer statistics into the worker result.
func zzvRecordU(res *vrep.Result, st sched.Stats, sig func(sched.Found, string) string) {
	res.Evaluations += st.Executions
	res.Transitions += st.Transitions
	res.States += int64(st.States)
	if !st.Exhaustive {
		res.Exhaustive = false
	}
	res.Scenarios = append(res.Scenarios, vrep.ScenarioStat{Name: st.Scenario, Bound: st.Bounds.String(), Executions: st.Executions,
		Transitions: st.Transitions, States: int64(st.States), Outcomes: int64(len(st.Outcomes)), Deadlocks: st.Deadlocks, Horizons: st.Horizons, Exhaustive: st.Exhaustive})
	for o := range st.Outcomes {
		res.Classes[fmt.Sprintf("%s/%016x", st.Scenario, o)]++
	}
	if st.Bounds.Preempt+st.Bounds.Kill+st.Bounds.Fault <= 1 {
		res.Sample(8, map[string]any{"scenario": st.Scenario, "bound": st.Bounds.String(), "default_schedule": st.Sample})
	}
	for _, f := range st.Violations {
		for _, m := range f.Messages {
			res.Violate(sig(f, m), m, map[string]any{"scenario": f.Scenario, "bound": f.Bounds, "choices": f.Choices, "deviations": f.Devs, "messages": f.Messages, "steps": f.Steps})
		}
	}
}

func zzvSortedStrings(m map[string][]string) []string {
	var ks []string
	for k := range m {
		ks = append(ks, k)
	}
	sort.Strings(ks)
	return ks
}
