//go:build verif

package upload

// C05 (uploader leg) — running the uploader returns normally whatever fails.
// E1 in fault mode: one thread runs the real upload.Run over a directory with
// two expired counter files and a ready report; every file-system call and
// the HTTP request is a fault choice point (single faults quick, pairs
// thorough). E3: counter files damaged at rest (the C06 damage menu) mixed
// with a sound file: Run returns, the damaged file stays byte-identical, the
// sound file is still reported.

import (
	"bytes"
	"encoding/binary"
	"fmt"
	"os"
	"path/filepath"
	"strings"
	"syscall"
	"testing"
	"time"

	"golang.org/x/telemetry/internal/verifshim/ref"
	"golang.org/x/telemetry/internal/verifshim/sched"
	"golang.org/x/telemetry/internal/verifshim/vatomic"
	"golang.org/x/telemetry/internal/verifshim/vhttp"
	"golang.org/x/telemetry/internal/verifshim/vos"
	"golang.org/x/telemetry/internal/verifshim/vrep"
)

type zzvC05U struct {
	u        *zzvU
	returned bool
	err      error
	pan      any
}

func zzvC05UScenario(base, mode string) *sched.Scenario {
	start := time.Date(2024, 1, 10, 12, 0, 0, 0, time.UTC)
	return &sched.Scenario{
		Name:     "UF-run-" + mode,
		MaxSteps: 4000,
		Setup: func(x *sched.Exec) {
			vos.Points, vos.Faults = false, true
			vatomic.SharedOnly = func(uintptr) bool { return false }
			u := zzvNewU(base)
			r := &zzvC05U{u: u}
			x.Scratch = r
			if mode == "on" {
				u.setModeRaw("on 2020-01-01")
			} else {
				u.setModeRaw("local")
			}
			u.writeCount(zzvBuildA, zzvDate("2024-01-03"), zzvDate("2024-01-07"), map[string]uint64{"c": 3})
			u.writeCount(zzvBuildB, zzvDate("2023-12-27"), zzvDate("2023-12-31"), map[string]uint64{"c": 4})
			os.WriteFile(filepath.Join(u.td.LocalDir(), "2023-12-24.json"), []byte(`{"Week":"2023-12-24","X":0.5,"Config":"v1.2.3"}`), 0o666)
			os.MkdirAll(u.td.DebugDir(), 0o777)
			zzvInstall(zzvAllApproving([]ref.LocalFile{{zzvBuildA, map[string]uint64{"c": 1}}, {zzvBuildB, nil}}), "v1.2.3", 0.5)
			vhttp.Choices = []int{200, 500, 0, 400}
			local := u.td.LocalDir()
			vos.FaultMenu = func(op, path string) []error {
				menu := []error{syscall.EIO}
				switch op {
				case "OpenFile", "ReadFile", "Stat", "ReadDir", "Remove":
					menu = append(menu, syscall.ENOENT, syscall.EACCES)
				case "WriteFile":
					menu = append(menu, syscall.ENOSPC)
				case "FWrite":
					menu = append(menu, vos.ErrShort)
				case "MkdirAll":
					menu = append(menu, syscall.EEXIST)
				}
				return append(menu, &vos.Foreign{Name: "remove-local-dir", Do: func() { os.RemoveAll(local) }})
			}
			x.Go("uploader", func() {
				r.err, r.pan = u.run(start)
				r.returned = true
			})
		},
		Check: func(x *sched.Exec) ([]string, uint64) {
			r := x.Scratch.(*zzvC05U)
			var v []string
			for _, t := range x.Threads {
				if t.Panic != nil {
					v = append(v, fmt.Sprintf("panic escapes upload.Run: %v", t.Panic))
				}
			}
			if r.pan != nil {
				v = append(v, fmt.Sprintf("panic escapes upload.Run: %v", r.pan))
			}
			if x.Deadlock || x.Horizon {
				v = append(v, "upload.Run does not return")
			}
			return v, zzvHash(r.err != nil, len(vhttp.Log), len(r.u.list("local")), len(r.u.list("upload")))
		},
		Teardown: func(x *sched.Exec) {
			vos.Faults, vos.FaultMenu = false, nil
			vhttp.Choices = nil
			x.Scratch.(*zzvC05U).u.close()
		},
	}
}

func TestVerifC05Upload(t *testing.T) {
	p := vrep.Env()
	res := vrep.New("C05", p)
	defer res.Guard()
	base, _ := vrep.Scratch("c05u")
	res.Rule = "uploader leg: every single (thorough: pair) non-default answer of the file-system calls and the HTTP request made by upload.Run (mode on and local) over two expired counter files and a ready report; counter files damaged at rest (single-field damage menu) next to a sound file"
	fb := []sched.Bounds{{}, {Fault: 1}, {Fault: 2}}
	if p.Thorough() {
		fb = append(fb, sched.Bounds{Fault: 3})
	}
	for _, mode := range []string{"on", "local"} {
		for _, b := range fb {
			ex := &sched.Explorer{Sc: zzvC05UScenario(base, mode), Bounds: b, Deadline: p.Deadline, Shard: p.Shard, NShards: p.NShards}
			st := ex.Explore()
			zzvRecordU(res, st, func(f sched.Found, m string) string {
				if strings.Contains(m, "panic") {
					return "uploader-panic-escapes"
				}
				return "uploader-no-return"
			})
		}
	}
	// Damaged files at rest.
	vos.Points, vos.Faults = false, false
	start := time.Date(2024, 1, 10, 12, 0, 0, 0, time.UTC)
	w := ref.NewCFWriter(zzvMetaFor(zzvBuildB, zzvDate("2024-01-03"), zzvDate("2024-01-07")))
	o1 := w.Add("c", 7)
	o2 := w.Add("d:a", 9)
	fields := []uint32{28, w.HdrLen, w.HdrLen + 4 + 4*ref.FNV("c"), w.HdrLen + 4 + 4*ref.FNV("d:a"), o1 + 8, o1 + 12, o2 + 8, o2 + 12}
	size := uint32(len(w.Data))
	vals := []uint32{0, 1, 31, o1, o2, o1 + 1, size - 16, size, size - o1 - 16, size - o1 - 16 + 1, size - o1 - 16 + 16, 0xffffffff, 0xff000001}
	idx := 0
	for _, f := range fields {
		for _, v := range vals {
			idx++
			if !p.Mine(idx) {
				continue
			}
			u := zzvNewU(base)
			u.setModeRaw("local")
			u.writeCount(zzvBuildA, zzvDate("2024-01-03"), zzvDate("2024-01-07"), map[string]uint64{"c": 3})
			d := w.Bytes()
			binary.LittleEndian.PutUint32(d[f:], v)
			bad := filepath.Join(u.td.LocalDir(), "damaged-2024-01-03.v1.count")
			os.WriteFile(bad, d, 0o666)
			zzvInstall(zzvSimpleConfig(0), "v1.2.3", 0.5)
			var err error
			var pan any
			noReturn := false
			func() {
				vatomic.Budget = 2000000
				defer func() {
					vatomic.Budget = 0
					if r := recover(); r != nil {
						if _, ok := r.(vatomic.BudgetExceeded); ok {
							noReturn = true
						} else {
							pan = r
						}
					}
				}()
				err, pan = u.run(start)
			}()
			res.Evaluations++
			desc := fmt.Sprintf("field@%#x=%#x", f, v)
			switch {
			case noReturn:
				res.Violate("uploader-no-return-damaged-file", "upload.Run does not return within the step budget with a damaged counter file: "+desc, map[string]any{"case": desc})
			case pan != nil:
				res.Violate("uploader-panic-damaged-file", fmt.Sprintf("panic escapes upload.Run with a damaged counter file (%v): %s", pan, desc), map[string]any{"case": desc})
			default:
				_ = err
				now, rerr := os.ReadFile(bad)
				rep, _, reperr := u.readReport("local/local.2024-01-07.json")
				accepted := rerr != nil // consumed: the library judged it readable
				if !accepted && !bytes.Equal(now, d) {
					res.Violate("damaged-file-modified", "a counter file that was not consumed was modified: "+desc, map[string]any{"case": desc})
				}
				if reperr != nil {
					res.Violate("sound-file-not-reported", "the sound counter file of the same week was not reported next to a damaged one: "+desc, map[string]any{"case": desc})
				} else {
					found := false
					for _, pr := range rep.Programs {
						if pr.Version == zzvBuildA.Version && pr.Counters["c"] == 3 {
							found = true
						}
					}
					if !found {
						res.Violate("sound-file-values-changed", "the sound file's counter is not reported with its value next to a damaged file: "+desc, map[string]any{"case": desc})
					}
				}
				res.Class(fmt.Sprintf("damaged/consumed=%v", accepted))
			}
			u.close()
		}
	}
	res.Validated = res.Evaluations
	res.Write()
}
