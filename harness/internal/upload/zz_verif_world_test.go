//go:build verif

package upload

// Shared fixture of the uploader harnesses (C01, C02, C05, C07, C08, C09): a
// telemetry directory in scratch space, counter files produced by the
// reference writer (so arbitrary metadata and names are reachable), a model
// upload server, the harness-supplied upload config and random X.

import (
	"encoding/json"
	"fmt"
	"hash/fnv"
	"io"
	"os"
	"path/filepath"
	"sort"
	"strings"
	"time"

	"golang.org/x/telemetry/internal/telemetry"
	"golang.org/x/telemetry/internal/verifshim/ref"
	"golang.org/x/telemetry/internal/verifshim/vconfigstore"
	"golang.org/x/telemetry/internal/verifshim/vhttp"
	"golang.org/x/telemetry/internal/verifshim/vrand"
)

type zzvU struct {
	dir   string
	td    telemetry.Dir
	nfile int
}

func zzvNewU(base string) *zzvU { return zzvNewUNamed(base, "u") }

// zzvNewUNamed puts the telemetry directory under a parent directory whose name starts with prefix.
func zzvNewUNamed(base, prefix string) *zzvU {
	dir, err := os.MkdirTemp(base, prefix)
	if err != nil {
		panic(err)
	}
	u := &zzvU{dir: dir, td: telemetry.NewDir(dir)}
	os.MkdirAll(u.td.LocalDir(), 0o777)
	os.MkdirAll(u.td.UploadDir(), 0o777)
	vhttp.Passthrough = false
	vhttp.Reset()
	vhttp.Answer = nil
	vhttp.Choices = nil
	return u
}

func (u *zzvU) close() { os.RemoveAll(u.dir) }

func (u *zzvU) setModeRaw(content string) {
	if err := os.WriteFile(u.td.ModeFile(), []byte(content), 0o666); err != nil {
		panic(err)
	}
}

var zzvDay = 24 * time.Hour

func zzvDate(s string) time.Time {
	t, err := time.Parse("2006-01-02", s)
	if err != nil {
		panic(err)
	}
	return t
}

// zzvMetaFor renders the metadata of a counter file in the library's order.
func zzvMetaFor(b ref.Build, begin, end time.Time) string {
	return ref.MetaString([][2]string{{"TimeBegin", begin.Format(time.RFC3339)}, {"TimeEnd", end.Format(time.RFC3339)}, {"Program", b.Program}, {"Version", b.Version}, {"GoVersion", b.GoVersion}, {"GOOS", b.GOOS}, {"GOARCH", b.GOARCH}})
}

// writeCount writes a counter file with the reference writer and returns its path.
func (u *zzvU) writeCount(b ref.Build, begin, end time.Time, counts map[string]uint64) string {
	return u.writeCountRaw(b, begin, zzvMetaFor(b, begin, end), counts)
}

func (u *zzvU) writeCountRaw(b ref.Build, begin time.Time, meta string, counts map[string]uint64) string {
	w := ref.NewCFWriter(meta)
	names := make([]string, 0, len(counts))
	for n := range counts {
		names = append(names, n)
	}
	sort.Strings(names)
	for _, n := range names {
		w.Add(n, counts[n])
	}
	u.nfile++
	base := filepath.Base(b.Program)
	name := fmt.Sprintf("%s@%s-%s-%s-%s-%s-%d.v1.count", base, b.Version, b.GoVersion, b.GOOS, b.GOARCH, begin.Format("2006-01-02"), u.nfile)
	p := filepath.Join(u.td.LocalDir(), name)
	if err := os.WriteFile(p, w.Bytes(), 0o666); err != nil {
		panic(err)
	}
	return p
}

// zzvInstall points the seams at the given config and X.
func zzvInstall(cfg *telemetry.UploadConfig, cfgVersion string, x float64) {
	vconfigstore.Hook = func(version string, env []string) (*telemetry.UploadConfig, string, error) {
		return cfg, cfgVersion, nil
	}
	vrand.Next = vrand.Sequence(x)
}

// run executes the real uploader once.
func (u *zzvU) run(start time.Time) (err error, panicked any) {
	defer func() {
		if r := recover(); r != nil {
			panicked = r
		}
	}()
	err = Run(RunConfig{TelemetryDir: u.dir, UploadURL: "http://upload.invalid/upload", StartTime: start, LogWriter: io.Discard})
	return err, nil
}

func (u *zzvU) readReport(rel string) (*telemetry.Report, []byte, error) {
	data, err := os.ReadFile(filepath.Join(u.dir, rel))
	if err != nil {
		return nil, nil, err
	}
	var r telemetry.Report
	if err := json.Unmarshal(data, &r); err != nil {
		return nil, data, err
	}
	return &r, data, nil
}

func (u *zzvU) list(sub string) []string {
	ents, _ := os.ReadDir(filepath.Join(u.dir, sub))
	var out []string
	for _, e := range ents {
		out = append(out, e.Name())
	}
	sort.Strings(out)
	return out
}

func zzvHash(parts ...any) uint64 {
	h := fnv.New64a()
	fmt.Fprint(h, parts...)
	return h.Sum64()
}

func zzvShortS(s string) string {
	s = strings.ReplaceAll(s, "\n", "\\n")
	if len(s) > 60 {
		return s[:60] + "..."
	}
	return s
}
