//go:build verif

package upload

// C02 (uploader leg) — nothing is uploaded or recorded beyond what the
// consent mode allows. E3 over mode-file contents x opt-in date layouts x
// expiry / age boundaries x sampling, plus ready-report layouts, plus E2 over
// sequences of mode changes, new counter files and runs.

import (
	"fmt"
	"math"
	"os"
	"path/filepath"
	"strings"
	"testing"
	"time"

	"golang.org/x/telemetry/internal/telemetry"
	"golang.org/x/telemetry/internal/verifshim/ref"
	"golang.org/x/telemetry/internal/verifshim/vhttp"
	"golang.org/x/telemetry/internal/verifshim/vrep"
)

// zzvModeRef is the reference reading of a mode file's content.
type zzvModeRef struct {
	modes   map[string]bool // admissible interpretations (more than one = don't-care)
	date    time.Time       // recorded opt-in date (zero: none)
	dateAmb bool            // whether a date is recorded is a don't-care
}

func zzvReadModeRef(content string, readable bool) zzvModeRef {
	if !readable {
		return zzvModeRef{modes: map[string]bool{"local": true}}
	}
	norm := func(tok string) string {
		switch tok {
		case "on", "off", "local":
			return tok
		}
		return "local" // any other value behaves as local
	}
	trimmed := strings.TrimSpace(content)
	tok, rest, hasRest := strings.Cut(trimmed, " ")
	r := zzvModeRef{modes: map[string]bool{norm(tok): true}}
	if trimmed != content {
		r.modes["local"] = true // surrounding white space: either reading is acceptable
		r.dateAmb = true
	}
	if hasRest {
		if d, err := time.Parse("2006-01-02", rest); err == nil {
			r.date = d
		} else if d, err := time.Parse("2006-01-02", strings.TrimSpace(rest)); err == nil && norm(tok) == "on" {
			// a date is plainly recorded, only the spacing is off: honouring it, or treating the whole
			// content as "any other value" (local), are both acceptable; ignoring the date is not
			r.date = d
			r.modes["local"] = true
		} else if norm(tok) == "on" {
			// "on" followed by something that is not a date is not one of the three modes with or
			// without a date: any other value behaves as local
			r.modes = map[string]bool{"local": true}
		}
	}
	return r
}

func (m zzvModeRef) only(mode string) bool { return len(m.modes) == 1 && m.modes[mode] }
func (m zzvModeRef) may(mode string) bool  { return m.modes[mode] }

var zzvOKBuild = ref.Build{"example.com/p1", "v1.0.0", "go1.21.0", "linux", "amd64"}

func zzvSimpleConfig(sample float64) *telemetry.UploadConfig {
	return &telemetry.UploadConfig{GOOS: []string{"linux"}, GOARCH: []string{"amd64"}, GoVersion: []string{"go1.21.0"}, SampleRate: sample,
		Programs: []*telemetry.ProgramConfig{{Name: "example.com/p1", Versions: []string{"v1.0.0"}, Counters: []telemetry.CounterConfig{{Name: "c", Rate: 1}}}}}
}

// dataFiles lists counter files and reports (the things mode off must not touch).
func (u *zzvU) dataFiles() ref.Snap {
	s := ref.Snapshot(u.dir)
	out := ref.Snap{}
	for k, v := range s {
		if strings.HasSuffix(k, ".v1.count") || strings.HasSuffix(k, ".json") {
			out[k] = v
		}
	}
	return out
}

type zzvC02Case struct {
	Mode    string `json:"mode_file"`
	Layout  string `json:"layout"`
	Sample  string `json:"sampling"`
	Anchor  string `json:"anchor"`
}

func TestVerifC02(t *testing.T) {
	p := vrep.Env()
	res := vrep.New("C02", p)
	defer res.Guard()
	base, _ := vrep.Scratch("c02")
	res.Rule = "E3: mode-file contents (19 forms incl. malformed, unreadable, white space) x opt-in date relative to the file's begin {-1d,0,+1d} x start time relative to the week end {7 boundary instants incl. exactly 21 days} x sampling {rate 0, X<=rate, X>rate} x calendar anchors, each through the real upload.Run; ready-report layouts (week vs today, week vs opt-in date); E2: all sequences up to depth 4 of {set mode as of d, new expired counter file, run}; classes = (reference mode, created, sent) outcomes"
	res.Assumptions = []string{"white-space-surrounded mode files may be read as their trimmed mode or as local (don't-care)", "the upload server, config and X are seams"}
	if p.Replay != "" {
		fmt.Println("C02 replay: cases are deterministic; re-run the quick check")
		return
	}
	anchors := []string{"2024-01-07", "2024-03-03", "2023-12-31", "2024-02-29", "2023-03-01", "2025-01-05"}
	if p.Thorough() {
		// every week end of 2024 (each weekday in turn), plus leap and year boundaries
		for d := zzvDate("2023-12-25"); d.Before(zzvDate("2025-01-12")); d = d.Add(8 * zzvDay) {
			anchors = append(anchors, d.Format("2006-01-02"))
		}
		anchors = append(anchors, "2024-02-28", "2024-03-01", "2023-02-28", "2026-03-01", "2027-12-31", "2028-02-29")
	}
	idx := 0
	for _, anchor := range anchors {
		end := zzvDate(anchor)
		begin := end.Add(-4 * zzvDay)
		type dvar struct {
			name string
			d    time.Time
		}
		dates := []dvar{{"D=begin-1d", begin.Add(-zzvDay)}, {"D=begin", begin}, {"D=begin+1d", begin.Add(zzvDay)}}
		var modes []string
		modes = append(modes, "<absent>", "<unreadable>", "", "on", "off", "local", "ON", "onx", "\xff\xfe", "off\n", " on ", "on\n", "on 2024-13-45", "bogus 2020-01-01", "on  2020-01-01")
		for _, dv := range dates {
			ds := dv.d.Format("2006-01-02")
			modes = append(modes, "on "+ds, "off "+ds, "local "+ds, "on "+ds+"\n")
			if dv.name == "D=begin-1d" {
				modes = append(modes, "ON "+ds, "On "+ds, "onx "+ds, "o "+ds, "on\t"+ds, "on,"+ds, "on "+ds+" x")
			}
		}
		type svar struct {
			name string
			at   time.Time
		}
		starts := []svar{
			{"start=end-1ns", end.Add(-1)}, {"start=end", end}, {"start=end+1ns", end.Add(1)}, {"start=end+3d", end.Add(3 * zzvDay)},
			{"start=end+21d-1ns", end.Add(21*zzvDay - 1)}, {"start=end+21d", end.Add(21 * zzvDay)}, {"start=end+21d+1ns", end.Add(21*zzvDay + 1)}, {"start=end+22d", end.Add(22 * zzvDay)},
		}
		e := math.Ldexp(1, -52)
		type xvar struct {
			name   string
			sample float64
			x      float64
		}
		samples := []xvar{{"rate0", 0, 0.5}, {"X=rate", 0.25, 0.25}, {"X>rate", 0.25, 0.25 + e}}
		for _, mode := range modes {
			for _, sv := range starts {
				for _, xv := range samples {
					idx++
					if !p.Mine(idx) {
						continue
					}
					zzvC02Count(res, base, zzvC02Case{mode, sv.name, xv.name, anchor}, mode, begin, end, sv.at, xv.sample, xv.x)
				}
			}
			// Ready reports.
			for _, wk := range []struct {
				name string
				d    int
			}{{"week=today-1d", -1}, {"week=today", 0}, {"week=today+1d", 1}} {
				idx++
				if !p.Mine(idx) {
					continue
				}
				start := end.Add(time.Duration(-wk.d) * zzvDay).Add(12 * time.Hour)
				zzvC02Ready(res, base, zzvC02Case{mode, "ready " + wk.name, "", anchor}, mode, end, start)
				// the same instants expressed in other time zones (RunConfig.StartTime is caller-supplied):
				// the calendar day that counts is the UTC one
				for _, z := range []struct {
					n string
					h int
				}{{"+14h", 14}, {"-12h", -12}} {
					zzvC02Ready(res, base, zzvC02Case{mode, "ready " + wk.name + " zone" + z.n, "", anchor}, mode, end, start.In(time.FixedZone(z.n, z.h*3600)))
				}
			}
		}
		if p.Expired() {
			res.Exhaustive = false
			break
		}
	}
	// E2: sequences.
	zzvC02Sequences(res, base, p)
	res.States = res.Evaluations
	res.Validated = res.Evaluations
	res.Write()
}

func (u *zzvU) installMode(mode string) (content string, readable bool) {
	switch mode {
	case "<absent>":
		return "", false
	case "<unreadable>":
		os.MkdirAll(u.td.ModeFile(), 0o777)
		return "", false
	}
	u.setModeRaw(mode)
	return mode, true
}

// zzvC02Count: one counter file, one run.
func zzvC02Count(res *vrep.Result, base string, cs zzvC02Case, mode string, begin, end, start time.Time, sample, x float64) {
	u := zzvNewU(base)
	defer u.close()
	content, readable := u.installMode(mode)
	m := zzvReadModeRef(content, readable)
	cf := u.writeCount(zzvOKBuild, begin, end, map[string]uint64{"c": 3, "zz": 4})
	// A second file of the same week that began two days later: "all of it collected
	// strictly after the opt-in date" is decided by the earliest begin.
	u.writeCount(ref.Build{"example.com/p1", "v1.0.0", "go1.21.0", "linux", "arm64"}, begin.Add(2*zzvDay), end, map[string]uint64{"c": 5})
	// ... and one whose name sorts in front of the first file's, so that the earliest begin is neither the
	// first nor the last one the uploader comes across.
	u.writeCount(ref.Build{"example.com/p1", "v1.0.0", "go1.21.0", "linux", "386"}, begin.Add(1*zzvDay), end, map[string]uint64{"c": 7})
	week := end.Format("2006-01-02")
	// Reports of other weeks and of this week that exist already (mode off must leave all of it alone).
	if strings.HasPrefix(mode, "off") {
		old := end.Add(-7 * zzvDay).Format("2006-01-02")
		os.WriteFile(filepath.Join(u.td.UploadDir(), old+".json"), []byte("{}"), 0o666)
		os.WriteFile(filepath.Join(u.td.LocalDir(), "local."+old+".json"), []byte("{}"), 0o666)
		switch cs.Sample {
		case "X=rate":
			os.WriteFile(filepath.Join(u.td.UploadDir(), week+".json"), []byte("{}"), 0o666)
		case "X>rate":
			os.WriteFile(filepath.Join(u.td.LocalDir(), week+".json"), []byte("{}"), 0o666)
			os.WriteFile(filepath.Join(u.td.LocalDir(), "local."+week+".json"), []byte("{}"), 0o666)
		}
	}
	zzvInstall(zzvSimpleConfig(sample), "v1.2.3", x)
	before := u.dataFiles()
	err, pan := u.run(start)
	res.Evaluations++
	res.Transitions++
	fail := func(sig, format string, args ...any) {
		res.Violate(sig, fmt.Sprintf(format, args...)+fmt.Sprintf(" [mode file %q; %s; %s; week %s]", mode, cs.Layout, cs.Sample, week), cs)
	}
	if pan != nil || err != nil {
		fail("run-failed", "upload.Run: err=%v panic=%v", err, pan)
		return
	}
	after := u.dataFiles()
	posts := len(vhttp.Log)
	_, haveUp := after["local/"+week+".json"]
	_, haveMarker := after["upload/"+week+".json"]
	_, haveLocal := after["local/local."+week+".json"]
	_, haveCount := after["local/"+filepath.Base(cf)]
	expired := end.Before(start)
	ageOK := start.Sub(end) <= 21*zzvDay
	sampleOK := sample == 0 || x <= sample
	dateOK := m.date.IsZero() || m.date.Before(begin)
	// Clause 1: a request only when the mode is exactly on.
	if posts > 0 && !m.may("on") {
		fail("post-without-mode-on", "%d requests although the mode is not on", posts)
	}
	// Clause: mode off changes nothing.
	if m.only("off") {
		if d := before.Diff(after); len(d) > 0 {
			fail("mode-off-changed-data", "mode off, yet %v", d)
		}
		res.Class("off/unchanged")
		return
	}
	if m.only("local") {
		if haveUp || haveMarker || posts > 0 {
			fail("mode-local-uploadable", "mode local, yet uploadable report=%v marker=%v requests=%d", haveUp, haveMarker, posts)
		}
		if haveLocal != expired {
			fail("mode-local-report", "mode local: local report present=%v, file expired=%v", haveLocal, expired)
		}
		if !expired && !haveCount {
			fail("active-file-removed", "active counter file removed")
		}
		res.Class(fmt.Sprintf("local/report=%v", haveLocal))
		return
	}
	if m.only("on") && !m.dateAmb {
		uploadable := expired && ageOK && sampleOK && dateOK
		sent := posts == 1 && haveMarker
		if uploadable != sent {
			fail("mode-on-uploadable-mismatch", "mode on: reference says uploadable=%v (expired=%v age<=21d=%v sampled=%v date-ok=%v) but requests=%d marker=%v", uploadable, expired, ageOK, sampleOK, dateOK, posts, haveMarker)
		}
		if haveLocal != expired {
			fail("mode-on-local-report", "mode on: local report present=%v, file expired=%v", haveLocal, expired)
		}
		if haveUp {
			fail("report-left-behind", "local/%s.json still present after a successful run", week)
		}
		res.Class(fmt.Sprintf("on/expired=%v/age=%v/sample=%v/date=%v", expired, ageOK, sampleOK, dateOK))
		return
	}
	// Don't-care readings: only the safety clauses above apply, plus: a request needs all gates.
	if posts > 0 && !(expired && ageOK && sampleOK && (dateOK || m.dateAmb)) {
		fail("post-beyond-gates", "request sent although expired=%v age=%v sample=%v date=%v", expired, ageOK, sampleOK, dateOK)
	}
	res.Class("dont-care-reading")
}

// zzvC02Ready: a report left ready for upload by an earlier run.
func zzvC02Ready(res *vrep.Result, base string, cs zzvC02Case, mode string, week time.Time, start time.Time) {
	for _, dOff := range []int{-1, 0, 1, 99} {
		u := zzvNewU(base)
		if dOff != 99 && strings.HasPrefix(mode, "on 2") && !strings.Contains(mode, "13-45") {
			mode = "on " + week.Add(time.Duration(dOff)*zzvDay).Format("2006-01-02")
		}
		content, readable := u.installMode(mode)
		m := zzvReadModeRef(content, readable)
		wk := week.Format("2006-01-02")
		body := []byte(`{"Week":"` + wk + `","X":0.5,"Config":"v1.2.3","Programs":[]}`)
		os.WriteFile(filepath.Join(u.td.LocalDir(), wk+".json"), body, 0o666)
		os.WriteFile(filepath.Join(u.td.LocalDir(), "local."+wk+".json"), body, 0o666)
		zzvInstall(zzvSimpleConfig(0), "v1.2.3", 0.5)
		before := u.dataFiles()
		err, pan := u.run(start)
		res.Evaluations++
		res.Transitions++
		fail := func(sig, format string, args ...any) {
			res.Violate(sig, fmt.Sprintf(format, args...)+fmt.Sprintf(" [mode file %q; %s; week %s; start %s]", mode, cs.Layout, wk, start.Format(time.RFC3339)), cs)
		}
		if pan != nil || err != nil {
			fail("run-failed", "upload.Run: err=%v panic=%v", err, pan)
			u.close()
			continue
		}
		posts := len(vhttp.Log)
		today := start.UTC().Format("2006-01-02")
		notFuture := wk <= today
		dateOK := m.date.IsZero() || m.date.Before(week)
		switch {
		case posts > 0 && !m.may("on"):
			fail("post-without-mode-on", "%d requests although the mode is not on", posts)
		case m.only("off"):
			if d := before.Diff(u.dataFiles()); len(d) > 0 {
				fail("mode-off-changed-data", "mode off, yet %v", d)
			}
		case m.only("on") && !m.dateAmb:
			want := notFuture && dateOK
			if (posts == 1) != want {
				fail("ready-report-send-mismatch", "reference says send=%v (week<=today=%v, opt-in before week=%v) but requests=%d", want, notFuture, dateOK, posts)
			}
		case posts > 0 && !(notFuture && (dateOK || m.dateAmb)):
			fail("post-beyond-gates", "request sent although week<=today=%v date-ok=%v", notFuture, dateOK)
		}
		for _, r := range vhttp.Log {
			if !strings.HasSuffix(r.URL, "/"+wk) {
				fail("post-url", "request to %s", r.URL)
			}
		}
		res.Class(fmt.Sprintf("ready/posts=%d/future=%v/date=%v", posts, !notFuture, dateOK))
		u.close()
		if dOff == 99 || !strings.HasPrefix(mode, "on 2") {
			break
		}
	}
}

// zzvC02Sequences: explicit-state search over histories.
func zzvC02Sequences(res *vrep.Result, base string, p vrep.Params) {
	type op struct {
		kind string // mode | file | run
		mode string
		day  int // index into the day line
	}
	day0 := zzvDate("2024-01-01")
	dayAt := func(i int) time.Time { return day0.Add(time.Duration(i) * 7 * zzvDay) } // weekly grid
	var alphabet []op
	for _, m := range []string{"on", "off", "local"} {
		for _, d := range []int{0, 2} {
			alphabet = append(alphabet, op{kind: "mode", mode: m, day: d})
		}
	}
	for _, d := range []int{1, 3} {
		alphabet = append(alphabet, op{kind: "file", day: d}) // a file whose week ends on dayAt(d)
	}
	for _, d := range []int{2, 4} {
		alphabet = append(alphabet, op{kind: "run", day: d})
	}
	depth := 3
	if p.Thorough() {
		depth = 4
	}
	var rec func(hist []op)
	count := 0
	rec = func(hist []op) {
		if len(hist) > 0 && hist[len(hist)-1].kind == "run" {
			count++
			if p.Mine(count) {
				// replay
				u := zzvNewU(base)
				zzvInstall(zzvSimpleConfig(0), "v1.2.3", 0.5)
				var modeNow zzvModeRef = zzvReadModeRef("", false)
				desc := ""
				for i, o := range hist {
					desc += fmt.Sprintf("%s(%s,%d) ", o.kind, o.mode, o.day)
					switch o.kind {
					case "mode":
						if err := u.td.SetModeAsOf(o.mode, dayAt(o.day)); err != nil {
							res.Violate("setmode-failed", err.Error(), desc)
						}
						modeNow = zzvModeRef{modes: map[string]bool{o.mode: true}, date: dayAt(o.day)}
					case "file":
						end := dayAt(o.day)
						u.writeCount(zzvOKBuild, end.Add(-3*zzvDay), end, map[string]uint64{"c": uint64(i + 1)})
					case "run":
						vhttp.Reset()
						before := u.dataFiles()
						start := dayAt(o.day).Add(36 * time.Hour)
						err, pan := u.run(start)
						if err != nil || pan != nil {
							res.Violate("run-failed", fmt.Sprintf("err=%v panic=%v after %s", err, pan, desc), desc)
						}
						if len(vhttp.Log) > 0 && !modeNow.only("on") {
							res.Violate("post-without-mode-on", fmt.Sprintf("%d requests in mode %v after %s", len(vhttp.Log), modeNow.modes, desc), desc)
						}
						if modeNow.only("off") {
							if d := before.Diff(u.dataFiles()); len(d) > 0 {
								res.Violate("mode-off-changed-data", fmt.Sprintf("mode off, yet %v after %s", d, desc), desc)
							}
						}
						for _, r := range vhttp.Log {
							wk := r.URL[strings.LastIndex(r.URL, "/")+1:]
							w, _ := time.Parse("2006-01-02", wk)
							if !modeNow.date.IsZero() && !modeNow.date.Before(w) {
								res.Violate("week-not-after-optin-sent", fmt.Sprintf("week %s sent although the opt-in date is %s, after %s", wk, modeNow.date.Format("2006-01-02"), desc), desc)
							}
							if wk > start.Format("2006-01-02") {
								res.Violate("future-week-sent", fmt.Sprintf("week %s sent on %s after %s", wk, start.Format("2006-01-02"), desc), desc)
							}
						}
						res.Class(fmt.Sprintf("seq/mode=%v/posts=%d", modeNow.modes, len(vhttp.Log)))
					}
				}
				res.Evaluations++
				res.Transitions += int64(len(hist))
				if count%200 == 1 {
					res.Sample(8, map[string]any{"leg": "sequence", "history": desc})
				}
				u.close()
			}
		}
		if len(hist) == depth {
			return
		}
		for _, o := range alphabet {
			rec(append(append([]op{}, hist...), o))
		}
	}
	rec(nil)
}
