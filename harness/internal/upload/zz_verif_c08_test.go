//go:build verif

package upload

// C08 — at most one report per week is delivered, under races, retries and
// crashes. Engine E1: 2-3 uploader processes (threads with their own
// uploader value on one real directory), scheduling points at every
// file-system call and at both halves of the HTTP request, kills, and the
// server's answer {200, 400, 500, none} as a choice point; then up to three
// sequential follow-up runs against a faithful server for the liveness
// clause.

import (
	"bytes"
	"encoding/json"
	"fmt"
	"os"
	"path/filepath"
	"strings"
	"testing"
	"time"

	"golang.org/x/telemetry/internal/telemetry"
	"golang.org/x/telemetry/internal/verifshim/ref"
	"golang.org/x/telemetry/internal/verifshim/sched"
	"golang.org/x/telemetry/internal/verifshim/vatomic"
	"golang.org/x/telemetry/internal/verifshim/vhttp"
	"golang.org/x/telemetry/internal/verifshim/vos"
	"golang.org/x/telemetry/internal/verifshim/vrand"
	"golang.org/x/telemetry/internal/verifshim/vrep"
)

const zzvC08Week = "2024-01-07"

type zzvC08Run struct {
	u          *zzvU
	start      time.Time
	errs       []string
	seenReqs   int
	markerPrev bool // marker existed after the previous step
	readyBody  []byte
	returned   []bool // per uploader: Run returned
}

func zzvWellFormedReport(url string, body []byte) bool {
	var rep telemetry.Report
	if json.Unmarshal(body, &rep) != nil {
		return false
	}
	return rep.Week != "" && strings.HasSuffix(url, "/"+rep.Week) && rep.X != 0
}

func (r *zzvC08Run) fail(format string, args ...any) {
	m := fmt.Sprintf(format, args...)
	for _, e := range r.errs {
		if e == m {
			return
		}
	}
	r.errs = append(r.errs, m)
}

func zzvC08Scenario(base, name string, nUploaders int, fromCounts bool) *sched.Scenario {
	s0 := time.Date(2024, 1, 10, 12, 0, 0, 0, time.UTC)
	return &sched.Scenario{
		Name:      name,
		MaxSteps:  5000,
		AllowKill: true,
		Setup: func(x *sched.Exec) {
			vos.Points, vos.Faults = true, false
			vos.Age = 0
			if strings.Contains(name, "slow-server-90s") {
				// every step of a peer may have happened up to the HTTP timeout (2 min) ago
				vos.Age = 90 * time.Second
			}
			vatomic.SharedOnly = func(uintptr) bool { return false }
			u := zzvNewU(base)
			r := &zzvC08Run{u: u, start: s0, returned: make([]bool, nUploaders)}
			x.Scratch = r
			u.setModeRaw("on 2020-01-01")
			if fromCounts {
				u.writeCount(zzvBuildA, zzvDate("2024-01-03"), zzvDate(zzvC08Week), map[string]uint64{"c": 3})
			} else {
				r.readyBody = []byte(`{"Week":"` + zzvC08Week + `","X":0.5,"Config":"v1.2.3","Programs":[]}`)
				os.WriteFile(filepath.Join(u.td.LocalDir(), zzvC08Week+".json"), r.readyBody, 0o666)
				os.WriteFile(filepath.Join(u.td.LocalDir(), "local."+zzvC08Week+".json"), r.readyBody, 0o666)
			}
			all := zzvAllApproving([]ref.LocalFile{{zzvBuildA, map[string]uint64{"c": 1}}})
			zzvInstall(all, "v1.2.3", 0.5)
			vrand.Next = func() [8]byte {
				id := 0
				if t := sched.Current(); t != nil {
					id = t.ID
				}
				return vrand.BytesForX(0.25 + 0.125*float64(id))
			}
			vhttp.Choices = []int{200, 400, 500, 0}
			for i := 0; i < nUploaders; i++ {
				i := i
				x.Go(fmt.Sprintf("uploader%d", i), func() {
					err, pan := u.run(r.start)
					if sched.Dead() {
						return
					}
					r.returned[i] = true
					if err != nil || pan != nil {
						r.fail("upload.Run failed: err=%v panic=%v", err, pan)
					}
				})
			}
			marker := filepath.Join(u.td.UploadDir(), zzvC08Week+".json")
			x.OnStep = func(x *sched.Exec) {
				for ; r.seenReqs < len(vhttp.Log); r.seenReqs++ {
					if r.markerPrev {
						r.fail("week %s sent again although it was already recorded as uploaded", zzvC08Week)
					}
				}
				_, err := os.Stat(marker)
				r.markerPrev = err == nil
			}
		},
		Check: func(x *sched.Exec) ([]string, uint64) {
			r := x.Scratch.(*zzvC08Run)
			u := r.u
			for _, t := range x.Threads {
				if t.Panic != nil {
					r.fail("panic in %s: %v", t.Name, t.Panic)
				}
			}
			if x.Deadlock || x.Horizon {
				r.fail("an uploader does not return (deadlock=%v horizon=%v)", x.Deadlock, x.Horizon)
			}
			kills := 0
			for _, t := range x.Threads {
				if sched.WasKilled(t) {
					kills++
				}
			}
			// Safety on the concurrent phase.
			acked := [][]byte{}
			n200, n4xx, n5xx := 0, 0, 0
			faithful := true
			for _, q := range vhttp.Log {
				switch {
				case q.Status == 200:
					n200++
					acked = append(acked, q.Body)
				case q.Status >= 400 && q.Status < 500:
					n4xx++
					if zzvWellFormedReport(q.URL, q.Body) {
						faithful = false // the server refused a well-formed report: the week may legitimately be dropped
					}
				default:
					n5xx++
				}
			}
			for i := 1; i < len(acked); i++ {
				if !bytes.Equal(acked[i], acked[0]) {
					r.fail("the server acknowledged two different bodies for week %s", zzvC08Week)
				}
			}
			_, markerErr := os.Stat(filepath.Join(u.td.UploadDir(), zzvC08Week+".json"))
			staged, stagedErr := os.ReadFile(filepath.Join(u.td.LocalDir(), zzvC08Week+".json"))
			allReturned := kills == 0
			if n200 == 0 && markerErr == nil {
				r.fail("week %s is marked uploaded although no request was acknowledged", zzvC08Week)
			}
			if allReturned && n200 == 0 && n4xx == 0 && n5xx > 0 {
				if stagedErr != nil {
					r.fail("report removed although every request got a server error or no answer")
				} else if r.readyBody != nil && !bytes.Equal(staged, r.readyBody) {
					r.fail("report changed after a server error")
				}
			}
			if allReturned && n200 == 0 && n4xx > 0 && n5xx == 0 && stagedErr == nil && len(vhttp.Log) == n4xx {
				// every request was refused with a client error, yet the report is still staged
				last := vhttp.Log[len(vhttp.Log)-1]
				if bytes.Equal(last.Body, staged) {
					r.fail("report still staged after the server refused it with a client error")
				}
			}
			// Liveness: without crashes and with a faithful server the week is acknowledged exactly once.
			outcome := zzvHash(n200, n4xx, n5xx, kills, markerErr == nil, stagedErr == nil)
			if kills == 0 && faithful {
				vhttp.Answer = func(q *vhttp.Request) int {
					if zzvWellFormedReport(q.URL, q.Body) {
						return 200
					}
					return 400
				}
				for i := 0; i < 3; i++ {
					u.run(r.start.Add(time.Duration(i+1) * time.Hour))
				}
				total := 0
				for _, q := range vhttp.Log {
					if q.Status == 200 {
						total++
					}
				}
				switch {
				case total == 0:
					r.fail("liveness: week %s is never acknowledged although no process crashed and the server refused only malformed bodies (requests: %s)", zzvC08Week, zzvReqSummary())
				case total > 1:
					r.fail("week %s acknowledged %d times", zzvC08Week, total)
				}
				outcome = zzvHash(outcome, total)
			}
			return append([]string{}, r.errs...), outcome
		},
		Teardown: func(x *sched.Exec) {
			vhttp.Choices = nil
			vos.Age = 0
			x.Scratch.(*zzvC08Run).u.close()
		},
	}
}

func zzvReqSummary() string {
	var parts []string
	for _, q := range vhttp.Log {
		parts = append(parts, fmt.Sprintf("%d(%dB)", q.Status, len(q.Body)))
	}
	return strings.Join(parts, ",")
}

func zzvSigC08(f sched.Found, msg string) string {
	fam := zzvFamilyU(f.Scenario)
	switch {
	case strings.Contains(msg, "sent again"):
		return "resent-after-marker:" + fam
	case strings.Contains(msg, "two different bodies"):
		return "two-bodies-acknowledged:" + fam
	case strings.Contains(msg, "marked uploaded although"):
		return "marker-without-ack:" + fam
	case strings.Contains(msg, "report removed although"):
		return "removed-after-5xx:" + fam
	case strings.Contains(msg, "report changed"):
		return "changed-after-5xx:" + fam
	case strings.Contains(msg, "still staged"):
		return "kept-after-4xx:" + fam
	case strings.HasPrefix(msg, "liveness"):
		half := "full-body"
		if strings.Contains(msg, "(0B)") {
			half = "empty-body-posted"
		}
		return "never-acknowledged:" + fam + ":" + half
	case strings.Contains(msg, "acknowledged") && strings.Contains(msg, "times"):
		return "acknowledged-more-than-once:" + fam
	case strings.HasPrefix(msg, "panic"):
		return "panic:" + fam
	case strings.Contains(msg, "does not return"):
		return "no-return:" + fam
	case strings.Contains(msg, "upload.Run failed"):
		return "run-failed:" + fam
	}
	return "other:" + fam
}

func zzvFamilyU(scn string) string {
	if i := strings.Index(scn, "-"); i >= 0 {
		return scn[:i]
	}
	return scn
}

func TestVerifC08(t *testing.T) {
	p := vrep.Env()
	res := vrep.New("C08", p)
	defer res.Guard()
	base, _ := vrep.Scratch("c08")
	res.Rule = "E1: all schedules of 2 (thorough: 3) uploader processes at file-system/HTTP-call granularity with kills and server answers {200,400,500,none} as choices, within the stated (preemption, kill, answer-deviation) bounds, each followed by 3 sequential runs against a faithful server; scenario R4 repeats R1 with every file looking 90 s old to stat (a peer waiting on a slow server, below the client's 2 min timeout); classes = distinct (answers, kills, marker, staged, acknowledgements) outcomes; E3: one uploader x every status 100-599 and a silent server (the seam answers with the client's timeout if the request carries a deadline, records it otherwise), then a second run; foreign *.json files next to a ready report"
	res.Assumptions = []string{"uploader processes are emulated by threads with separate uploader values on one real directory", "a kill stops a process between two hooked calls; deferred clean-up does not run", "no answer = the server did not process the request"}
	scns := []struct {
		name   string
		n      int
		counts bool
		thor   bool
	}{
		{"R1-two-uploaders-ready-report", 2, false, false},
		{"R2-two-uploaders-from-counter-files", 2, true, false},
		{"R3-three-uploaders-ready-report", 3, false, true},
		{"R4-two-uploaders-slow-server-90s", 2, false, false},
	}
	if p.Replay != "" {
		zzvReplayU(p.Replay, func(name string) *sched.Scenario {
			for _, s := range scns {
				if s.name == name {
					return zzvC08Scenario(base, s.name, s.n, s.counts)
				}
			}
			return nil
		})
		return
	}
	// Every status code: one uploader, one ready report, one request answered with the code, then a
	// second run against a server that accepts. 200 marks the week uploaded; every 4xx discards the
	// report without marking it; everything else leaves it in place and the second run delivers it.
	for code := 99; code <= 599; code++ {
		if !p.Mine(code) {
			continue
		}
		silent := code == 99 // not a status: the server accepts the request and never answers
		if silent {
			code = vhttp.Silence
		}
		u := zzvNewU(base)
		u.setModeRaw("on 2020-01-01")
		body := []byte(`{"Week":"` + zzvC08Week + `","X":0.5,"Config":"v1.2.3","Programs":[]}`)
		staged := filepath.Join(u.td.LocalDir(), zzvC08Week+".json")
		os.WriteFile(staged, body, 0o666)
		zzvInstall(zzvAllApproving([]ref.LocalFile{{zzvBuildA, map[string]uint64{"c": 1}}}), "v1.2.3", 0.5)
		vhttp.Answer = func(*vhttp.Request) int { return code }
		start := time.Date(2024, 1, 10, 12, 0, 0, 0, time.UTC)
		u.run(start)
		_, markerErr := os.Stat(filepath.Join(u.td.UploadDir(), zzvC08Week+".json"))
		_, stagedErr := os.Stat(staged)
		res.Evaluations++
		fail := func(sig, format string, args ...any) {
			res.Violate(sig, fmt.Sprintf(format, args...)+fmt.Sprintf(" [server answers %d (-1: never)]", code), map[string]any{"status": code})
		}
		switch {
		case code >= 200 && code < 300:
			// "success" is the 2xx class: the server has acknowledged the report
			if markerErr != nil || stagedErr == nil {
				fail("success-not-marked", "after a %d answer: marker present=%v, staged report present=%v (the report would be sent, and acknowledged, again on every run)", code, markerErr == nil, stagedErr == nil)
			}
		case code >= 400 && code < 500:
			if markerErr == nil {
				fail("client-error-marked-uploaded", "a client error marked the week uploaded")
			}
			if stagedErr == nil {
				fail("client-error-not-discarded", "the report refused with a client error is still staged and would be sent again")
			}
		default:
			if silent && vhttp.Unbounded > 0 {
				fail("request-without-time-limit", "the request has no client-side time limit: a server that never answers blocks this uploader, and the week's lock it holds, for ever")
			}
			if markerErr == nil {
				fail("non-200-marked-uploaded", "marked uploaded without an acknowledgement")
			}
			if stagedErr != nil {
				fail("report-lost-on-server-error", "the report was removed although the server did not accept it")
			}
			vhttp.Answer = func(*vhttp.Request) int { return 200 }
			n := len(vhttp.Log)
			u.run(start.Add(time.Hour))
			if len(vhttp.Log) != n+1 {
				fail("not-retried", "the report was not sent again by the next run (%d further requests)", len(vhttp.Log)-n)
			}
		}
		if silent {
			res.Class("status/silent")
			code = 99
		} else {
			res.Class(fmt.Sprintf("status/%dxx", code/100))
		}
		u.close()
	}
	// Foreign files next to the reports: whatever else lies in local/, a ready report is delivered
	// exactly once and Run returns.
	if p.Mine(2) {
		for _, foreign := range []string{"(1).json", "x.json", "package-lock.json", "a.json", "d.json/", "zz.json", ".json", "2024-01-07.json.bak", "local.json"} {
			u := zzvNewU(base)
			u.setModeRaw("on 2020-01-01")
			body := []byte(`{"Week":"` + zzvC08Week + `","X":0.5,"Config":"v1.2.3","Programs":[]}`)
			os.WriteFile(filepath.Join(u.td.LocalDir(), zzvC08Week+".json"), body, 0o666)
			if strings.HasSuffix(foreign, "/") {
				os.MkdirAll(filepath.Join(u.td.LocalDir(), foreign), 0o777)
			} else {
				os.WriteFile(filepath.Join(u.td.LocalDir(), foreign), []byte("{}"), 0o666)
			}
			zzvInstall(zzvAllApproving([]ref.LocalFile{{zzvBuildA, map[string]uint64{"c": 1}}}), "v1.2.3", 0.5)
			vhttp.Answer = func(q *vhttp.Request) int {
				if strings.HasSuffix(q.URL, "/"+zzvC08Week) {
					return 200
				}
				return 400 // the server knows nothing about the foreign file
			}
			start := time.Date(2024, 1, 10, 12, 0, 0, 0, time.UTC)
			var failed string
			for i := 0; i < 3; i++ {
				if err, pan := u.run(start.Add(time.Duration(i) * time.Hour)); err != nil || pan != nil {
					failed = fmt.Sprintf("err=%v panic=%v", err, pan)
				}
			}
			acks := 0
			for _, q := range vhttp.Log {
				if q.Status == 200 && bytes.Equal(q.Body, body) {
					acks++
				}
			}
			res.Evaluations++
			if failed != "" {
				res.Violate("run-failed:foreign-file", fmt.Sprintf("upload.Run fails with the foreign file %q in local/: %s", foreign, failed), map[string]any{"foreign": foreign})
			}
			if acks != 1 {
				res.Violate("never-acknowledged:foreign-file", fmt.Sprintf("with the foreign file %q in local/ the ready report of week %s was acknowledged %d times in three runs (requests: %s)", foreign, zzvC08Week, acks, zzvReqSummary()), map[string]any{"foreign": foreign})
			}
			res.Class("foreign/" + foreign)
			u.close()
		}
	}
	bounds := []sched.Bounds{{}, {Preempt: 1}, {Fault: 1}, {Preempt: 1, Fault: 1}, {Preempt: 1, Kill: 1, Fault: 1}, {Preempt: 2, Kill: 1, Fault: 2}}
	if p.Thorough() {
		bounds = append(bounds, sched.Bounds{Preempt: 3, Kill: 1, Fault: 2}, sched.Bounds{Preempt: 2, Kill: 2, Fault: 3})
	}
	for _, sc := range scns {
		if sc.thor && !p.Thorough() {
			continue
		}
		for _, b := range bounds {
			ex := &sched.Explorer{Sc: zzvC08Scenario(base, sc.name, sc.n, sc.counts), Bounds: b, Deadline: p.Deadline, Shard: p.Shard, NShards: p.NShards}
			st := ex.Explore()
			zzvRecordU(res, st, zzvSigC08)
			if !st.Exhaustive {
				break
			}
		}
	}
	res.Validated = res.Evaluations
	res.Write()
}

// zzvReplayU re-executes a recorded counterexample and prints its step log.
func zzvReplayU(path string, find func(name string) *sched.Scenario) {
	data, err := os.ReadFile(path)
	if err != nil {
		fmt.Println("replay:", err)
		os.Exit(2)
	}
	var art struct {
		Replay struct {
			Scenario string `json:"scenario"`
			Choices  []int  `json:"choices"`
		} `json:"replay"`
	}
	if err := json.Unmarshal(data, &art); err != nil {
		fmt.Println("replay:", err)
		os.Exit(2)
	}
	sc := find(art.Replay.Scenario)
	if sc == nil {
		fmt.Println("replay: unknown scenario", art.Replay.Scenario)
		os.Exit(2)
	}
	x, viol := sched.Replay(sc, art.Replay.Choices)
	for _, l := range x.Log {
		fmt.Println("  ", l)
	}
	for _, d := range x.DescribeChoices() {
		fmt.Println("deviation:", d)
	}
	if len(viol) == 0 {
		fmt.Println("replay: no violation reproduced")
		os.Exit(0)
	}
	for _, v := range viol {
		fmt.Println("VIOLATION-REPRODUCED:", v)
	}
	os.Exit(1)
}
