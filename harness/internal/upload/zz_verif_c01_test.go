//go:build verif

package upload

// C01 — uploaded reports contain only configuration-approved data.
// Engine E3: the product of configuration variants x X x local file sets is
// enumerated in full; every case runs the real upload.Run end to end and is
// compared with the reference model of the documented config semantics
// (verifshim/ref/config.go). A second leg (E2) enumerates two-run histories
// in which the first run's report is left over and sent by the second run.

import (
	"bytes"
	"encoding/json"
	"fmt"
	"math"
	"strings"
	"testing"
	"time"

	"golang.org/x/telemetry/internal/telemetry"
	"golang.org/x/telemetry/internal/verifshim/ref"
	"golang.org/x/telemetry/internal/verifshim/vhttp"
	"golang.org/x/telemetry/internal/verifshim/vrep"
)

var (
	zzvWeekEnd = zzvDate("2024-01-07")
	zzvBegin   = zzvDate("2024-01-03")
	zzvStart   = time.Date(2024, 1, 10, 12, 0, 0, 0, time.UTC)
)

type zzvC01Cfg struct {
	desc string
	cfg  *telemetry.UploadConfig
}

func zzvC01Configs(thorough bool) []zzvC01Cfg {
	var out []zzvC01Cfg
	progSets := map[string][][2]any{
		"P1":    {{"example.com/p1", []string{"v1.0.0", "v2.0.0"}}},
		"P1+P2": {{"example.com/p1", []string{"v1.0.0", "v2.0.0"}}, {"example.com/p2", []string{"v1.0.0"}}},
		"P2+P1": {{"example.com/p2", []string{"v1.0.0"}}, {"example.com/p1", []string{"v1.0.0", "v2.0.0"}}},
		"none":  {},
	}
	goVers := map[string][]string{"g1": {"go1.21.0"}, "g1g2": {"go1.21.0", "go1.22.0"}}
	counterSets := map[string][]string{"c": {"c"}, "c:{a,b}": {"c:{a,b}"}, "c:{a}": {"c:{a}"}, "d:{a,b}+c": {"d:{a,b}", "c"}}
	stackSets := map[string][]string{"s": {"s"}, "nostack": {}, "s+c": {"s", "c"}} // "c" is also a plain counter's name
	rates := []float64{0, 0.25, 1}
	srates := []float64{0.25, 1}
	samples := []float64{0, 0.25, 1}
	for _, pn := range []string{"P1", "P1+P2", "P2+P1", "none"} {
		for _, gn := range []string{"g1", "g1g2"} {
			for _, cn := range []string{"c", "c:{a,b}", "c:{a}", "d:{a,b}+c"} {
				for _, sn := range []string{"s", "nostack", "s+c"} {
					for _, r := range rates {
						for _, sr := range srates {
							for _, sample := range samples {
								if !thorough && sr != 1 && r == 0 {
									continue
								}
								cfg := &telemetry.UploadConfig{GOOS: []string{"linux"}, GOARCH: []string{"amd64"}, GoVersion: goVers[gn], SampleRate: sample}
								for _, ps := range progSets[pn] {
									pc := &telemetry.ProgramConfig{Name: ps[0].(string), Versions: ps[1].([]string)}
									// The second program lists the same names with different rates:
									// rates are per program.
									cr, csr := r, sr
									if pc.Name == "example.com/p2" {
										cr, csr = 1-r, 1.25-sr
									}
									for _, c := range counterSets[cn] {
										pc.Counters = append(pc.Counters, telemetry.CounterConfig{Name: c, Rate: cr})
									}
									for _, s := range stackSets[sn] {
										pc.Stacks = append(pc.Stacks, telemetry.CounterConfig{Name: s, Rate: csr, Depth: 5})
									}
									cfg.Programs = append(cfg.Programs, pc)
								}
								out = append(out, zzvC01Cfg{fmt.Sprintf("progs=%s go=%s counters=%s stacks=%s rate=%v srate=%v sample=%v", pn, gn, cn, sn, r, sr, sample), cfg})
							}
						}
					}
				}
			}
		}
	}
	// A name listed more than once (chart configs generate one entry per chart, bucket lists may overlap):
	// it is approved at X if some listing's rate is not below X.
	for _, rr := range [][2]float64{{1, 0}, {0, 1}, {1, 0.125}, {0.125, 1}} {
		pc := &telemetry.ProgramConfig{Name: "example.com/p1", Versions: []string{"v1.0.0", "v2.0.0"},
			Counters: []telemetry.CounterConfig{{Name: "c:{a,b}", Rate: rr[0]}, {Name: "c:{b,c}", Rate: rr[1]}, {Name: "c", Rate: rr[0]}, {Name: "c", Rate: rr[1]}},
			Stacks:   []telemetry.CounterConfig{{Name: "s", Rate: rr[0], Depth: 5}, {Name: "s", Rate: rr[1], Depth: 5}}}
		cfg := &telemetry.UploadConfig{GOOS: []string{"linux"}, GOARCH: []string{"amd64"}, GoVersion: []string{"go1.21.0"}, SampleRate: 1, Programs: []*telemetry.ProgramConfig{pc}}
		out = append(out, zzvC01Cfg{fmt.Sprintf("progs=P1 repeated listings with rates %v then %v", rr[0], rr[1]), cfg})
	}
	// Bucket lists that are empty or have an empty element: they add no counter (in particular not "c:").
	{
		pc := &telemetry.ProgramConfig{Name: "example.com/p1", Versions: []string{"v1.0.0", "v2.0.0"},
			Counters: []telemetry.CounterConfig{{Name: "c:{}", Rate: 1}, {Name: "d:{a,}", Rate: 1}}}
		cfg := &telemetry.UploadConfig{GOOS: []string{"linux"}, GOARCH: []string{"amd64"}, GoVersion: []string{"go1.21.0"}, SampleRate: 1, Programs: []*telemetry.ProgramConfig{pc}}
		out = append(out, zzvC01Cfg{"progs=P1 counters c:{} and d:{a,} (empty bucket list / empty element)", cfg})
	}
	// A program listed in two entries: a stack named c (rate 1) in one, the counter c (rate 0.125) in the other.
	// Each kind keeps its own rate, whichever entry comes first.
	for _, stackFirst := range []bool{true, false} {
		e1 := &telemetry.ProgramConfig{Name: "example.com/p1", Versions: []string{"v1.0.0"}, Stacks: []telemetry.CounterConfig{{Name: "c", Rate: 1, Depth: 5}, {Name: "s", Rate: 0.125, Depth: 5}}}
		e2 := &telemetry.ProgramConfig{Name: "example.com/p1", Versions: []string{"v2.0.0"}, Counters: []telemetry.CounterConfig{{Name: "c", Rate: 0.125}, {Name: "s", Rate: 1}}}
		progs := []*telemetry.ProgramConfig{e1, e2}
		if !stackFirst {
			progs = []*telemetry.ProgramConfig{e2, e1}
		}
		cfg := &telemetry.UploadConfig{GOOS: []string{"linux"}, GOARCH: []string{"amd64"}, GoVersion: []string{"go1.21.0"}, SampleRate: 1, Programs: progs}
		out = append(out, zzvC01Cfg{fmt.Sprintf("progs=P1 listed twice (stack entry first=%v), c and s configured as both kinds with different rates", stackFirst), cfg})
	}
	return out
}

// zzvC01Names is the counter-name alphabet: approved names, prefixes,
// suffixes, near-misses, literal braces, stack heads equal to plain names.
var zzvC01Names = []string{"d:", "c", "c:a", "c:b", "c:c", "c:{a,b}", "c:a,b", "c:", "cc", "c:ab", "d:a", "d:b", "s", "s\nF", "s2\nF", "sx\nF", "c:a\nF", "\nF", "c\nF", "s\nF\nG",
	// names that look like abbreviated frame lines of an approved name
	"\".s\nF", "x.s\nF"}

type zzvC01FileSet struct {
	desc  string
	files []ref.LocalFile
}

func zzvC01FileSets() []zzvC01FileSet {
	ok := ref.Build{"example.com/p1", "v1.0.0", "go1.21.0", "linux", "amd64"}
	all := map[string]uint64{}
	for i, n := range zzvC01Names {
		all[n] = uint64(i + 1)
	}
	half1, half2 := map[string]uint64{}, map[string]uint64{}
	for i, n := range zzvC01Names {
		if i%2 == 0 || i%3 == 0 {
			half1[n] = uint64(10 + i)
		}
		if i%2 == 1 || i%3 == 0 {
			half2[n] = uint64(100 + i)
		}
	}
	small := func(k uint64) map[string]uint64 {
		return map[string]uint64{"c": k, "c:a": k + 1, "d:a": k + 2, "s\nF": k + 3, "zz": k + 4}
	}
	variants := []ref.Build{
		ok,
		{"example.com/p1", "v3.0.0", "go1.21.0", "linux", "amd64"},
		{"example.com/p1", "v1.0.0", "go1.99.0", "linux", "amd64"},
		{"example.com/p2", "v1.0.0", "go1.21.0", "linux", "amd64"},
		{"example.com/p2", "v2.0.0", "go1.21.0", "linux", "amd64"},
		{"example.com/p3", "v1.0.0", "go1.21.0", "linux", "amd64"},
		{"example.com/p1", "v2.0.0", "go1.22.0", "linux", "amd64"},
		{"example.com/p1x", "v1.0.0", "go1.21.0", "linux", "amd64"},
		{"p1", "v1.0.0", "go1.21.0", "linux", "amd64"},
		{"example.com/p1", "v1.0.0", "go1.21.0", "linux", "arm64"},
		{"example.com/p1", "v1.0.0", "go1.21.0", "darwin", "amd64"},
	}
	var many []ref.LocalFile
	for i, b := range variants {
		many = append(many, ref.LocalFile{Build: b, Counts: small(uint64(i * 10))})
	}
	big := map[string]uint64{"c": 1 << 31, "c:a": 1 << 62, "d:a": 5, "s\nF": 1 << 40}
	return []zzvC01FileSet{
		{"one-file-all-names", []ref.LocalFile{{ok, all}}},
		{"two-files-same-build", []ref.LocalFile{{ok, half1}, {ok, half2}}},
		{"eleven-builds", many},
		{"big-values", []ref.LocalFile{{ok, big}, {ok, map[string]uint64{"c": 1 << 31}}}},
		{"huge-values", []ref.LocalFile{{ok, map[string]uint64{"c": 1 << 63, "c:a": ^uint64(0), "d:a": 1 << 62, "s\nF": 1<<63 + 5, "c:b": 7, "d:b": ^uint64(0) - 2}}, {ok, map[string]uint64{"d:a": 1 << 62, "c:b": ^uint64(0), "d:b": 9, "c": 3, "s\nF": 1 << 63}}}},
	}
}

// zzvC01Xs: boundaries of the rate test around 0.25 and the extremes.
func zzvC01Xs() []float64 {
	// X lives on the grid k*2^-52; 0.25 is on it, so X == Rate is reachable.
	e := math.Ldexp(1, -52)
	return []float64{e, 0.25 - e, 0.25, 0.25 + e, 1 - e}
}

type zzvC01Case struct {
	Config string  `json:"config"`
	X      float64 `json:"x"`
	Files  string  `json:"files"`
}

// zzvC01Run executes one case and applies the oracle.
func zzvC01Run(res *vrep.Result, base string, cc zzvC01Cfg, x float64, fs zzvC01FileSet) {
	u := zzvNewU(base)
	defer u.close()
	u.setModeRaw("on 2020-01-01")
	for _, f := range fs.files {
		u.writeCount(f.Build, zzvBegin, zzvWeekEnd, f.Counts)
	}
	zzvInstall(cc.cfg, "v1.2.3", x)
	cs := zzvC01Case{cc.desc, x, fs.desc}
	fail := func(sig, format string, args ...any) {
		res.Violate(sig, fmt.Sprintf(format, args...)+fmt.Sprintf(" [config %s; X=%v; files %s]", cc.desc, x, fs.desc), cs)
	}
	err, pan := u.run(zzvStart)
	res.Evaluations++
	res.Transitions++
	if pan != nil {
		fail("run-panic", "upload.Run panicked: %v", pan)
		return
	}
	if err != nil {
		fail("run-error", "upload.Run failed: %v", err)
		return
	}
	uploadable := cc.cfg.SampleRate == 0 || x <= cc.cfg.SampleRate
	want, wantBuilds := ref.ExpectedUpload(cc.cfg, x, fs.files)
	// The unfiltered aggregate must always exist and hold every local counter.
	local, _, lerr := u.readReport("local/local.2024-01-07.json")
	if lerr != nil {
		fail("local-report-missing", "no readable local report: %v", lerr)
		return
	}
	wantLocal := ref.SumFiles(fs.files)
	gotLocal, _ := ref.ReportTriples(local)
	if fs.desc == "huge-values" {
		for t := range gotLocal {
			if t.Value < 0 {
				fail("negative-value-in-local-report", "counter %q recorded as %d in the local report (local sum >= 2^63)", zzvShortS(t.Name), t.Value)
			}
		}
	}
	if d := ref.DiffTriples(gotLocal, wantLocal); len(d) > 0 {
		fail("local-aggregate-differs", "local aggregate differs from the sums over the files: %s", strings.Join(d[:min(3, len(d))], "; "))
	}
	if !uploadable {
		if len(vhttp.Log) != 0 {
			fail("post-although-not-sampled", "%d requests although X > SampleRate", len(vhttp.Log))
		}
		res.Class("not-sampled")
		return
	}
	if len(vhttp.Log) != 1 {
		fail("post-count", "%d requests for one uploadable week, want 1", len(vhttp.Log))
		return
	}
	req := vhttp.Log[0]
	if !strings.HasSuffix(req.URL, "/2024-01-07") {
		fail("post-url", "request sent to %s", req.URL)
	}
	var rep telemetry.Report
	if err := json.Unmarshal(req.Body, &rep); err != nil {
		fail("post-body-not-json", "request body is not a report: %v", err)
		return
	}
	got, gotBuilds := ref.ReportTriples(&rep)
	if fs.desc == "huge-values" {
		// Sums beyond the range of the report's integers are reported as the largest
		// int64 (the reference sums exactly and saturates); never as a negative number.
		for t := range got {
			if t.Value < 0 {
				fail("negative-value-uploaded", "counter %q uploaded as %d although counts never decrease (local sum >= 2^63)", zzvShortS(t.Name), t.Value)
			}
		}
		res.Class("sent/huge-values")
	}
	for b := range gotBuilds {
		if !wantBuilds[b] {
			fail("unapproved-build-named", "request names unapproved build %v", b)
		}
	}
	if d := ref.DiffTriples(got, want); len(d) > 0 {
		kind := "upload-differs"
		if strings.HasPrefix(d[0], "unexpected") {
			kind = "unapproved-or-wrong-datum-uploaded"
		} else {
			kind = "approved-datum-missing"
		}
		fail(kind, "uploaded data differ from the reference: %s", strings.Join(d[:min(3, len(d))], "; "))
	}
	if rep.X != x || rep.Week != "2024-01-07" || rep.Config != "v1.2.3" {
		fail("report-fields", "report fields X=%v Week=%s Config=%s", rep.X, rep.Week, rep.Config)
	}
	// No other local name or value anywhere in the request.
	for _, f := range fs.files {
		for n := range f.Counts {
			q, _ := json.Marshal(n)
			if bytes.Contains(req.Body, q[1:len(q)-1]) && len(n) > 2 {
				found := false
				for t := range want {
					if strings.Contains(t.Name, n) {
						found = true
					}
				}
				if !found && !zzvInMeta(&rep, n) {
					fail("unapproved-name-in-request", "request contains local name %q which is not approved", zzvShortS(n))
				}
			}
		}
	}
	// The marker copy equals what was sent.
	_, up, uerr := u.readReport("upload/2024-01-07.json")
	if uerr != nil || !bytes.Equal(up, req.Body) {
		fail("marker-differs", "upload/2024-01-07.json differs from the request body (%v)", uerr)
	}
	res.Class(fmt.Sprintf("sent/builds=%d/triples=%d", len(gotBuilds), min(len(got), 9)))
	if res.Evaluations%2000 == 1 {
		res.Sample(6, map[string]any{"case": cs, "uploaded_triples": len(got), "builds": len(gotBuilds)})
	}
}

func zzvInMeta(r *telemetry.Report, s string) bool {
	for _, p := range r.Programs {
		if strings.Contains(p.Program, s) || strings.Contains(p.Version, s) || strings.Contains(p.GoVersion, s) {
			return true
		}
	}
	return false
}

// zzvAllApproving builds a configuration that approves everything in files.
func zzvAllApproving(files []ref.LocalFile) *telemetry.UploadConfig {
	cfg := &telemetry.UploadConfig{}
	progs := map[string]*telemetry.ProgramConfig{}
	for _, f := range files {
		cfg.GoVersion = append(cfg.GoVersion, f.Build.GoVersion)
		cfg.GOOS = append(cfg.GOOS, f.Build.GOOS)
		cfg.GOARCH = append(cfg.GOARCH, f.Build.GOARCH)
		p := progs[f.Build.Program]
		if p == nil {
			p = &telemetry.ProgramConfig{Name: f.Build.Program}
			progs[f.Build.Program] = p
			cfg.Programs = append(cfg.Programs, p)
		}
		p.Versions = append(p.Versions, f.Build.Version)
		for n := range f.Counts {
			if i := strings.Index(n, "\n"); i >= 0 {
				p.Stacks = append(p.Stacks, telemetry.CounterConfig{Name: n[:i], Rate: 1})
			} else if !strings.Contains(n, "{") {
				p.Counters = append(p.Counters, telemetry.CounterConfig{Name: n, Rate: 1})
			}
		}
	}
	return cfg
}

func TestVerifC01(t *testing.T) {
	p := vrep.Env()
	res := vrep.New("C01", p)
	defer res.Guard()
	base, _ := vrep.Scratch("c01")
	res.Rule = "E3: full product of configuration variants (program sets x Go-version lists x counter-config sets incl. bucket syntax x stack configs x rates x sample rates) x 5 boundary values of X x 4 local file sets covering 19 counter/stack names (prefixes, suffixes, near-misses, literal braces, heads equal to plain names), 9 build variants, same-build summation and large values; each case = one real upload.Run; classes = (sent, builds, triples) shapes. E2 leg: two-run histories with a left-over report"
	res.Assumptions = []string{"counter files are produced by the reference writer (cross-validated against the library's reader in C10/C06)", "the upload config, X and the HTTP server are supplied through the vconfigstore / vrand / vhttp seams"}
	if p.Replay != "" {
		fmt.Println("C01 replay: cases are named by (config, X, files); re-run the quick check, cases are deterministic")
		return
	}
	cfgs := zzvC01Configs(p.Thorough())
	idx := 0
	for _, cc := range cfgs {
		for _, x := range zzvC01Xs() {
			for _, fs := range zzvC01FileSets() {
				idx++
				if !p.Mine(idx) {
					continue
				}
				zzvC01Run(res, base, cc, x, fs)
			}
		}
		if p.Expired() {
			res.Exhaustive = false
			break
		}
	}
	// Thorough: every single name and every pair of names of the alphabet as the whole content of
	// the approved build's file (so that no other name can mask a mistake), under every configuration
	// and X.
	if p.Thorough() {
		ok := ref.Build{"example.com/p1", "v1.0.0", "go1.21.0", "linux", "amd64"}
		var sets []zzvC01FileSet
		for i, a := range zzvC01Names {
			sets = append(sets, zzvC01FileSet{fmt.Sprintf("only %q", a), []ref.LocalFile{{ok, map[string]uint64{a: uint64(i + 1)}}}})
			for j := i + 1; j < len(zzvC01Names); j++ {
				b := zzvC01Names[j]
				sets = append(sets, zzvC01FileSet{fmt.Sprintf("only %q,%q", a, b), []ref.LocalFile{{ok, map[string]uint64{a: uint64(i + 1), b: uint64(j + 1)}}}})
			}
		}
		for _, cc := range cfgs {
			for _, x := range zzvC01Xs() {
				for _, fs := range sets {
					idx++
					if !p.Mine(idx) {
						continue
					}
					zzvC01Run(res, base, cc, x, fs)
				}
			}
			if p.Expired() {
				res.Exhaustive = false
				res.Note("name-pair leg stopped by the time budget")
				break
			}
		}
	}
	// E2: histories. Run 1 under config A gets a 500; run 2 under config B sends the leftover.
	if p.Mine(0) {
		zzvC01History(res, base)
	}
	res.States = res.Evaluations
	res.Validated = res.Evaluations
	res.Write()
}

func zzvC01History(res *vrep.Result, base string) {
	cfgs := zzvC01Configs(false)
	pick := []int{0, len(cfgs) / 3, len(cfgs) / 2, len(cfgs) - 1}
	fs := zzvC01FileSets()[0]
	for _, ia := range pick {
		for _, ib := range pick {
			for _, first := range []int{500, 0} {
				a, b := cfgs[ia], cfgs[ib]
				a.cfg.SampleRate, b.cfg.SampleRate = 0, 0
				u := zzvNewU(base)
				u.setModeRaw("on 2020-01-01")
				for _, f := range fs.files {
					u.writeCount(f.Build, zzvBegin, zzvWeekEnd, f.Counts)
				}
				x := 0.25
				zzvInstall(a.cfg, "v1.0.0", x)
				vhttp.Answer = func(r *vhttp.Request) int { return first }
				u.run(zzvStart)
				zzvInstall(b.cfg, "v2.0.0", 0.75)
				vhttp.Answer = func(r *vhttp.Request) int { return 200 }
				u.run(zzvStart.Add(24 * time.Hour))
				res.Evaluations++
				res.Transitions += 2
				want, wantBuilds := ref.ExpectedUpload(a.cfg, x, fs.files)
				for i, req := range vhttp.Log {
					var rep telemetry.Report
					if err := json.Unmarshal(req.Body, &rep); err != nil {
						res.Violate("history-body-not-json", fmt.Sprintf("request %d is not a report", i), nil)
						continue
					}
					got, gotBuilds := ref.ReportTriples(&rep)
					for bb := range gotBuilds {
						if !wantBuilds[bb] {
							res.Violate("history-unapproved-build", fmt.Sprintf("left-over report names build %v not approved by the config of the run that built it", bb), map[string]any{"a": a.desc, "b": b.desc})
						}
					}
					if d := ref.DiffTriples(got, want); len(d) > 0 {
						res.Violate("history-upload-differs", "left-over report differs from the reference under the config of the run that built it: "+d[0], map[string]any{"a": a.desc, "b": b.desc})
					}
					if rep.Config != "v1.0.0" {
						res.Violate("history-config-version", "left-over report carries config version "+rep.Config, nil)
					}
				}
				res.Class(fmt.Sprintf("history/requests=%d", len(vhttp.Log)))
				u.close()
			}
		}
	}
}
