//go:build verif

package upload

// C09 (uploader leg): the uploader treats a file as finished exactly when its
// recorded end is before the start time and reports it under the week named
// by that end date, for every day x week-end setting x start relative to the
// end instant.

import (
	"fmt"
	"os"
	"testing"
	"time"

	"golang.org/x/telemetry/internal/verifshim/ref"
	"golang.org/x/telemetry/internal/verifshim/vrep"
)

func TestVerifC09Upload(t *testing.T) {
	p := vrep.Env()
	res := vrep.New("C09", p)
	defer res.Guard()
	base, _ := vrep.Scratch("c09u")
	res.Rule = "every day of 2023-12-01..2024-04-30 (thorough: ..2025-03-31) x 7 week-end settings: a file with the documented span is consumed iff its end is before the start time, for start in {end-1ns, end, end+1ns, end+1d}, and the report is named by the end date"
	first, last := time.Date(2023, 12, 1, 0, 0, 0, 0, time.UTC), time.Date(2024, 4, 30, 0, 0, 0, 0, time.UTC)
	if p.Thorough() {
		last = time.Date(2025, 3, 31, 0, 0, 0, 0, time.UTC)
	}
	zzvInstall(zzvSimpleConfig(0), "v1.2.3", 0.5)
	idx := 0
	for wd := 0; wd < 7; wd++ {
		for day := first; !day.After(last); day = day.AddDate(0, 0, 1) {
			idx++
			if !p.Mine(idx) {
				continue
			}
			begin, end := ref.WeekSpan(day.Add(9*time.Hour), time.Weekday(wd))
			for _, st := range []struct {
				name string
				d    time.Duration
			}{{"end-1ns", -1}, {"end", 0}, {"end+1ns", 1}, {"end+1d", 24 * time.Hour}} {
				u := zzvNewU(base)
				u.setModeRaw("local")
				path := u.writeCount(zzvOKBuild, begin, end, map[string]uint64{"c": 2})
				start := end.Add(st.d)
				err, pan := u.run(start)
				res.Evaluations++
				week := end.Format("2006-01-02")
				_, statErr := os.Stat(path)
				rep, _, rerr := u.readReport("local/local." + week + ".json")
				finished := end.Before(start)
				fail := func(sig, format string, args ...any) {
					res.Violate(sig, fmt.Sprintf(format, args...)+fmt.Sprintf(" [file %s..%s, start %s]", begin.Format("2006-01-02"), end.Format(time.RFC3339), st.name), map[string]any{"begin": begin.Format("2006-01-02"), "end": week, "start": st.name})
				}
				switch {
				case err != nil || pan != nil:
					fail("run-failed", "err=%v panic=%v", err, pan)
				case finished && (rerr != nil || statErr == nil):
					fail("finished-file-not-consumed", "file ended before the start but report err=%v, file still present=%v", rerr, statErr == nil)
				case finished && rep.Week != week:
					fail("report-week-differs", "report Week=%q, want the end date %s", rep.Week, week)
				case !finished && (rerr == nil || statErr != nil):
					fail("unfinished-file-consumed", "file had not ended before the start, yet report present=%v file present=%v", rerr == nil, statErr == nil)
				}
				if l := u.list("local"); finished && len(l) != 1 {
					fail("unexpected-files", "local dir holds %v", l)
				}
				res.Class(fmt.Sprintf("upload/%s/consumed=%v", st.name, finished))
				u.close()
			}
		}
	}
	res.Transitions = res.Evaluations
	res.States = res.Evaluations
	res.Validated = res.Evaluations
	res.Write()
}
