//go:build verif

package main

// C17 (generator leg) — upload-config generation is faithful and version
// padding is a sorted, duplicate-free superset.

import (
	"fmt"
	"go/version"
	"sort"
	"strings"
	"testing"

	"golang.org/x/mod/semver"
	"golang.org/x/telemetry/internal/chartconfig"
	"golang.org/x/telemetry/internal/verifshim/vrep"
)

func TestVerifC17Gen(t *testing.T) {
	p := vrep.Env()
	res := vrep.New("C17", p)
	defer res.Guard()
	res.Rule = "generator leg: (c) every ordered list of 1-3 records over {cmd/go, cmd/compile, gopls} x minimum version {none, low, high, newer than every known release} x depth {0,5} x {own counter expression per record, one expression shared by all records} through the real generate with a fixed set of known versions: each counter expression listed once under its program, as a stack iff it has a depth, versions = every known version not older than the smallest minimum of the program's records (Go-version order for toolchain programs, semver order otherwise; padded extras allowed); (d) padVersions on every subset (size <= 3, thorough 4) of a 12-version pool (two with numeric components beyond 64 resp. 63 bits), and those lists with one version named twice, x 243 padding settings: superset of the input, sorted, duplicate-free, no panic"
	// The known versions are installed afresh before every generate call (generate filters the list it is
	// handed in place). They include early releases (v0.0.1, v0.1.0, v1.0.0): version padding counts up from a
	// release, so it can only be told apart from a listing of old real releases if such releases exist.
	pristine := map[string][]string{
		"golang.org/toolchain":     {"v0.0.1-go1.20.linux-amd64", "v0.0.1-go1.21.0.linux-amd64", "v0.0.1-go1.21.5.linux-amd64", "v0.0.1-go1.22.0.linux-amd64", "v0.0.1-go1.23rc1.linux-amd64", "v0.0.1-go1.23.0.linux-amd64"},
		"golang.org/x/tools/gopls": {"v0.0.1", "v0.1.0", "v0.13.0", "v0.14.0", "v0.14.1-pre.1", "v0.14.1", "v0.15.0-pre.1"},
	}
	install := func() {
		versionsForTesting = map[string][]string{}
		for k, v := range pristine {
			versionsForTesting[k] = append([]string{}, v...)
		}
	}
	install()
	goKnown := []string{"go1.20", "go1.21.0", "go1.21.5", "go1.22.0", "go1.23rc1", "go1.23.0"}
	goplsKnown := pristine["golang.org/x/tools/gopls"]
	type recSpec struct {
		prog  string
		min   string
		depth int
	}
	var specs []recSpec
	for _, prog := range []string{"cmd/go", "cmd/compile", "golang.org/x/tools/gopls"} {
		mins := []string{"", "go1.21.0", "go1.23.0", "go1.24.0"}
		if !strings.HasPrefix(prog, "cmd/") {
			// v0.16.0: a chart added for the next, not yet tagged release
			mins = []string{"", "v0.13.0", "v0.14.1", "v0.16.0"}
		}
		for _, m := range mins {
			for _, d := range []int{0, 5} {
				specs = append(specs, recSpec{prog, m, d})
			}
		}
	}
	var lists [][]recSpec
	for _, a := range specs {
		lists = append(lists, []recSpec{a})
		for _, b := range specs {
			lists = append(lists, []recSpec{a, b})
			if p.Thorough() {
				for _, c := range specs {
					if c.prog == a.prog || c.prog == b.prog {
						lists = append(lists, []recSpec{a, b, c})
					}
				}
			}
		}
	}
	idx := 0
	// every list twice: with a counter expression of its own per record, and with all records drawing on the
	// same expression (several charts, and several programs, over one counter name)
	for _, shared := range []bool{false, true} {
		for _, list := range lists {
			idx++
			if !p.Mine(idx) {
				continue
			}
			var cfgs []chartconfig.ChartConfig
			for i, s := range list {
				c := chartconfig.ChartConfig{Title: fmt.Sprintf("t%d", i), Issue: []string{"https://go.dev/issue/1"}, Type: "partition", Program: s.prog, Counter: fmt.Sprintf("ctr%d:{a,b}", i), Version: s.min, Depth: s.depth}
				if s.depth > 0 {
					c.Type = "stack"
					c.Counter = fmt.Sprintf("stk%d", i)
				}
				if !strings.HasPrefix(s.prog, "cmd/") {
					c.Module = s.prog
				}
				if shared {
					c.Counter = "ctrS:{a,b}"
					if s.depth > 0 {
						c.Counter = "stkS"
					}
				}
				cfgs = append(cfgs, c)
			}
			desc := fmt.Sprint(list)
			if shared {
				desc += " shared-expression"
			}
			res.Evaluations++
			install()
			ucfg, err := generate(cfgs, regularPaddings)
			if err != nil {
				res.Violate("generate-failed", fmt.Sprintf("generate: %v [%s]", err, desc), nil)
				continue
			}
			fail := func(sig, format string, args ...any) {
				res.Violate(sig, fmt.Sprintf(format, args...)+" [records "+desc+"]", map[string]any{"records": desc})
			}
			byProg := map[string][]int{}
			for i, s := range list {
				byProg[s.prog] = append(byProg[s.prog], i)
			}
			if len(ucfg.Programs) != len(byProg) {
				fail("program-count", "%d programs generated for %d distinct programs", len(ucfg.Programs), len(byProg))
			}
			for _, pc := range ucfg.Programs {
				idxs := byProg[pc.Name]
				var wantC, wantS []string
				smallest, none := "", false
				for _, i := range idxs {
					if list[i].depth > 0 {
						wantS = append(wantS, cfgs[i].Counter)
					} else {
						wantC = append(wantC, cfgs[i].Counter)
					}
					m := list[i].min
					switch {
					case m == "":
						none = true
					case smallest == "":
						smallest = m
					case strings.HasPrefix(pc.Name, "cmd/") && version.Compare(m, smallest) < 0:
						smallest = m
					case !strings.HasPrefix(pc.Name, "cmd/") && semver.Compare(m, smallest) < 0:
						smallest = m
					}
				}
				if none {
					smallest = ""
				}
				var gotC, gotS []string
				for _, c := range pc.Counters {
					gotC = append(gotC, c.Name)
				}
				for _, c := range pc.Stacks {
					gotS = append(gotS, c.Name)
				}
				if shared {
					// two charts of one program over the same expression: listed once or once per chart
					gotC, wantC, gotS, wantS = zzvUniq(gotC), zzvUniq(wantC), zzvUniq(gotS), zzvUniq(wantS)
				}
				if fmt.Sprint(gotC) != fmt.Sprint(wantC) || fmt.Sprint(gotS) != fmt.Sprint(wantS) {
					fail("counters-differ", "program %s: counters %v stacks %v, want %v / %v", pc.Name, gotC, gotS, wantC, wantS)
				}
				have := map[string]bool{}
				for _, v := range pc.Versions {
					have[v] = true
				}
				known := goplsKnown
				older := func(v string) bool { return smallest != "" && semver.Compare(v, smallest) < 0 }
				if strings.HasPrefix(pc.Name, "cmd/") {
					known = goKnown
					older = func(v string) bool { return smallest != "" && version.Compare(v, smallest) < 0 }
				}
				for _, v := range known {
					if !older(v) && !have[v] {
						fail("known-version-missing", "program %s: known version %s is not older than the smallest minimum %q but is not listed (versions %v)", pc.Name, v, smallest, pc.Versions)
					}
					if older(v) && have[v] {
						fail("older-version-listed", "program %s: version %s is older than the smallest minimum %q but is listed", pc.Name, v, smallest)
					}
				}
			}
			res.Class(fmt.Sprintf("c/programs=%d/records=%d/shared=%v", len(byProg), len(list), shared))
		}
	}
	// (d) padVersions
	pool := []string{"v0", "v0.1.0", "v1.0.0", "v1.2", "v1.2.3", "v1.2.4-pre.1", "v1.3.0-pre.2", "v2.0.0", "v1.2.3+meta", "v0.14.1-pre.1", "v99999999999999999999.0.0", "v1.9223372036854775807.0"}
	var subsets [][]string
	maxN := 3
	if p.Thorough() {
		maxN = 4
	}
	var gen func(start int, cur []string)
	gen = func(start int, cur []string) {
		subsets = append(subsets, append([]string{}, cur...))
		if len(cur) == maxN {
			return
		}
		for i := start; i < len(pool); i++ {
			gen(i+1, append(cur, pool[i]))
		}
	}
	gen(0, nil)
	// "all version lists": also lists that name a version twice (first and last element repeated)
	for _, sub := range append([][]string{}, subsets...) {
		if n := len(sub); n >= 1 && n < maxN {
			subsets = append(subsets, append(append([]string{}, sub...), sub[0]))
			if n >= 2 {
				subsets = append(subsets, append([]string{sub[n-1]}, sub...))
			}
		}
	}
	pres := []string{"pre.1", "pre.2", "pre.3"}
	for _, sub := range subsets {
		for code := 0; code < 243; code++ {
			idx++
			if !p.Mine(idx) {
				continue
			}
			pd := padding{releases: code % 3, maj: code / 3 % 3, majmin: code / 9 % 3, patch: code / 27 % 3, pre: code / 81 % 3}
			res.Evaluations++
			var out []string
			var pan any
			func() {
				defer func() { pan = recover() }()
				out = padVersions(sub, pres, pd)
			}()
			desc := fmt.Sprintf("versions=%v padding=%+v", sub, pd)
			if pan != nil {
				res.Violate("pad-panic", fmt.Sprintf("padVersions panics: %v [%s]", pan, desc), nil)
				continue
			}
			have := map[string]int{}
			for _, v := range out {
				have[v]++
			}
			for _, v := range sub {
				if have[v] == 0 {
					res.Violate("pad-drops-version", fmt.Sprintf("real version %s missing from %v [%s]", v, out, desc), nil)
				}
			}
			for v, n := range have {
				if n > 1 {
					res.Violate("pad-duplicate", fmt.Sprintf("version %s listed %d times [%s]", v, n, desc), nil)
				}
			}
			if !sort.SliceIsSorted(out, func(i, j int) bool { return semver.Compare(out[i], out[j]) < 0 }) {
				res.Violate("pad-unsorted", fmt.Sprintf("output %v is not sorted [%s]", out, desc), nil)
			}
			res.Class(fmt.Sprintf("d/in=%d/added=%d", len(sub), min(len(out)-len(sub), 5)))
		}
	}
	res.Transitions = res.Evaluations
	res.States = res.Evaluations
	res.Validated = res.Evaluations
	res.Write()
}

func zzvUniq(l []string) []string {
	var out []string
	seen := map[string]bool{}
	for _, x := range l {
		if !seen[x] {
			seen[x] = true
			out = append(out, x)
		}
	}
	return out
}
