//go:build verif

package chartconfig

// C17 (parser leg) — chart-config parsing is total and round-trips.
// E3: (a) every text of up to 4 (thorough 5) lines over a 26-line alphabet
// must yield records or an error, never a panic; (b) record sets rendered by
// an independent renderer in every formatting variant of the documented
// syntax must parse back to exactly the records.

import (
	"fmt"
	"reflect"
	"strings"
	"testing"

	"golang.org/x/telemetry/internal/verifshim/vrep"
)

var zzvLines = []string{
	"---", "", "# comment", "   ", "title: T", "title:", "description: D # trailing", "issue: https://go.dev/issue/1", "issue: https://go.dev/issue/2",
	"type: partition", "type: stack", "program: cmd/go", "module: golang.org/x/tools/gopls", "version: v1.0.0", "depth: 5", "depth: x", "error: 0.1", "error: 1e999",
	"counter: c", "counter: c:{a,b}", "counter: c:{", "  a,", "  b}", "}", "counter: c:{a}{b}", " title: indented", "unknown: x", "counter: c:{a,", "c}", "title: a{b",
}

type zzvRenderOpts struct {
	order        int  // rotation of the field order
	bucketLines  int  // 1, 2 or 3+ lines for a bucket list
	comments     bool // inline and full-line comments
	blanks       bool // blank lines between fields
	spaceAfterKey bool
}

// zzvRender writes records in the documented syntax.
func zzvRender(recs []ChartConfig, o zzvRenderOpts) string {
	var b strings.Builder
	sp := " "
	if !o.spaceAfterKey {
		sp = ""
	}
	for ri, r := range recs {
		if ri > 0 {
			b.WriteString("---\n")
		}
		var fields [][2]string
		if r.Counter != "" {
			fields = append(fields, [2]string{"counter", r.Counter})
		}
		if r.Title != "" {
			fields = append(fields, [2]string{"title", r.Title})
		}
		if r.Description != "" {
			fields = append(fields, [2]string{"description", r.Description})
		}
		for _, is := range r.Issue {
			fields = append(fields, [2]string{"issue", is})
		}
		if r.Type != "" {
			fields = append(fields, [2]string{"type", r.Type})
		}
		if r.Program != "" {
			fields = append(fields, [2]string{"program", r.Program})
		}
		if r.Module != "" {
			fields = append(fields, [2]string{"module", r.Module})
		}
		if r.Version != "" {
			fields = append(fields, [2]string{"version", r.Version})
		}
		if r.Depth != 0 {
			fields = append(fields, [2]string{"depth", fmt.Sprint(r.Depth)})
		}
		if r.Error != 0 {
			fields = append(fields, [2]string{"error", fmt.Sprint(r.Error)})
		}
		// Rotate the order, keeping repeated issue fields in their relative order.
		if n := len(fields); n > 0 {
			k := o.order % n
			fields = append(append([][2]string{}, fields[k:]...), fields[:k]...)
			// restore the relative order of issues
			var issues []string
			for _, f := range fields {
				if f[0] == "issue" {
					issues = append(issues, f[1])
				}
			}
			want := append([]string{}, r.Issue...)
			if fmt.Sprint(issues) != fmt.Sprint(want) {
				i := 0
				for fi := range fields {
					if fields[fi][0] == "issue" {
						fields[fi][1] = want[i]
						i++
					}
				}
			}
		}
		if o.comments {
			b.WriteString("# a full-line comment\n")
		}
		for _, f := range fields {
			key, val := f[0], f[1]
			if key == "counter" && strings.Contains(val, "{") && o.bucketLines > 1 {
				oi := strings.Index(val, "{")
				head, list := val[:oi+1], strings.TrimSuffix(val[oi+1:], "}")
				buckets := strings.Split(list, ",")
				// the line that opens the list may carry trailing blanks or a comment, like any other
				tail := ""
				if o.blanks {
					tail = "  "
				}
				if o.comments {
					tail += " # buckets follow"
				}
				b.WriteString(key + ":" + sp + head + tail + "\n")
				for bi, bk := range buckets {
					sep := ","
					if bi == len(buckets)-1 {
						sep = ""
					}
					if o.bucketLines == 2 {
						b.WriteString("  " + strings.Join(buckets, ",") + "\n")
						break
					}
					c := ""
					if o.comments {
						c = " # bucket"
					}
					b.WriteString("\t" + bk + sep + c + "\n")
				}
				if o.comments {
					b.WriteString("} # end of the list\n")
				} else {
					b.WriteString("}\n")
				}
			} else {
				c := ""
				if o.comments {
					c = " # why"
				}
				b.WriteString(key + ":" + sp + val + c + "\n")
			}
			if o.blanks {
				b.WriteString("\n   \n")
			}
		}
	}
	return b.String()
}

func TestVerifC17(t *testing.T) {
	p := vrep.Env()
	res := vrep.New("C17", p)
	defer res.Guard()
	res.Rule = "parser leg: (a) all texts of up to 4 (thorough 5) lines over 30 line kinds (separators, comments, every key, empty values, indentation, unknown keys, open/continued/closed/stray/doubled braces, bad numbers): Parse returns records or an error, never panics; (b) 1-2 records built from per-field alternatives (absent/value1/value2, 0-2 issues, plain / one-bucket / three-bucket counters) rendered in 48 formatting variants (field order rotation, bucket list on 1/2/n lines, comments, blank lines, space after key) must parse back exactly"
	idx := 0
	// (a) totality
	maxLen := 4
	if p.Thorough() {
		maxLen = 5
	}
	var rec func(lines []int)
	rec = func(lines []int) {
		idx++
		if p.Mine(idx) {
			var parts []string
			for _, l := range lines {
				parts = append(parts, zzvLines[l])
			}
			text := strings.Join(parts, "\n")
			res.Evaluations++
			func() {
				defer func() {
					if r := recover(); r != nil {
						res.Violate("parse-panic", fmt.Sprintf("Parse panics on %q: %v", text, r), map[string]any{"text": text})
					}
				}()
				recs, err := Parse([]byte(text))
				switch {
				case err != nil:
					res.Class("a/error")
				default:
					res.Class(fmt.Sprintf("a/records=%d", len(recs)))
				}
			}()
		}
		if len(lines) == maxLen {
			return
		}
		for l := range zzvLines {
			rec(append(append([]int{}, lines...), l))
		}
	}
	rec(nil)
	// (b) round trip
	full := ChartConfig{Title: "Editor Distribution", Description: "measure editor distribution", Issue: []string{"https://go.dev/issue/1"}, Type: "partition", Program: "golang.org/x/tools/gopls", Module: "golang.org/x/tools/gopls", Counter: "gopls/editor:{emacs,vim,other}", Depth: 0, Error: 0.1, Version: "v1.0.0"}
	var records []ChartConfig
	records = append(records, full)
	mut := func(f func(c *ChartConfig)) {
		c := full
		c.Issue = append([]string{}, full.Issue...)
		f(&c)
		records = append(records, c)
	}
	mut(func(c *ChartConfig) { c.Title = "" })
	mut(func(c *ChartConfig) { c.Title = "Another: title with colon" })
	mut(func(c *ChartConfig) { c.Description = "" })
	mut(func(c *ChartConfig) { c.Issue = nil })
	mut(func(c *ChartConfig) { c.Issue = []string{"https://go.dev/issue/1", "https://go.dev/issue/2"} })
	mut(func(c *ChartConfig) { c.Type = "stack"; c.Depth = 10; c.Counter = "gopls/bug" })
	mut(func(c *ChartConfig) { c.Type = "" })
	mut(func(c *ChartConfig) { c.Program = "cmd/go"; c.Module = ""; c.Version = "go1.21.0" })
	mut(func(c *ChartConfig) { c.Counter = "c:{a}" })
	mut(func(c *ChartConfig) { c.Counter = "plain/counter" })
	mut(func(c *ChartConfig) { c.Counter = "" })
	mut(func(c *ChartConfig) { c.Error = 0; c.Version = "" })
	mut(func(c *ChartConfig) { c.Depth = -1 })
	mut(func(c *ChartConfig) { c.Error = 1e-9 })
	mut(func(c *ChartConfig) { c.Title = "title: title" })
	// braces in text fields (the documented syntax only forbids '#' in values)
	mut(func(c *ChartConfig) { c.Title = "Editors {all}" })
	mut(func(c *ChartConfig) { c.Description = "counts gopls/editor:{emacs,vim} per week" })
	var sets [][]ChartConfig
	for _, a := range records {
		sets = append(sets, []ChartConfig{a})
		for _, b := range records {
			sets = append(sets, []ChartConfig{a, b})
		}
	}
	for _, set := range sets {
		for order := 0; order < 4; order++ {
			for bl := 1; bl <= 3; bl++ {
				for _, comments := range []bool{false, true} {
					for _, blanks := range []bool{false, true} {
						idx++
						if !p.Mine(idx) {
							continue
						}
						o := zzvRenderOpts{order: order * 3, bucketLines: bl, comments: comments, blanks: blanks, spaceAfterKey: (order+bl)%2 == 0}
						text := zzvRender(set, o)
						res.Evaluations++
						var got []ChartConfig
						var err error
						func() {
							defer func() {
								if r := recover(); r != nil {
									err = fmt.Errorf("panic: %v", r)
								}
							}()
							got, err = Parse([]byte(text))
						}()
						if err != nil {
							sig := "roundtrip-rejected"
							for _, c := range set {
								if strings.ContainsAny(c.Title+c.Description+strings.Join(c.Issue, ""), "{}") && (strings.Contains(err.Error(), "'{'") || strings.Contains(err.Error(), "'}'")) {
									sig = "roundtrip-rejected:brace-in-text-field"
								}
							}
							res.Violate(sig, fmt.Sprintf("valid rendering rejected: %v\n%s", err, text), map[string]any{"text": text})
							continue
						}
						if !reflect.DeepEqual(got, set) {
							res.Violate("roundtrip-differs", fmt.Sprintf("parsed records %+v differ from the rendered ones %+v\n%s", got, set, text), map[string]any{"text": text})
						}
						res.Class(fmt.Sprintf("b/records=%d/bucketlines=%d/comments=%v/blanks=%v", len(set), bl, comments, blanks))
						if res.Evaluations%5000 == 3 {
							res.Sample(4, map[string]any{"leg": "roundtrip", "text": text})
						}
					}
				}
			}
		}
	}
	res.Transitions = res.Evaluations
	res.States = res.Evaluations
	res.Validated = res.Evaluations
	res.Write()
}
