//go:build verif

package crashmonitor

// C14 — crash reports reach telemetry only as program counters.
// Engine E3 over a traceback grammar: (A) well-formed tracebacks generated
// from PC lists (the expected name is known by construction), (B) every
// single substitution of a free-text slot, (C) all sequences of up to 5 (6)
// lines over 25 line kinds (totality, shape and no-leak oracle), (D) real
// crashing children of this very executable.

import (
	"fmt"
	"os"
	"os/exec"
	"regexp"
	"runtime"
	"runtime/debug"
	"strings"
	"testing"

	"golang.org/x/telemetry/internal/counter"
	"golang.org/x/telemetry/internal/verifshim/vrep"
)

// --- a pool of real program counters --------------------------------------------

type zzvT struct{ n int }

//go:noinline
func (t *zzvT) method(depth int, out *[]uintptr) { zzvGeneric[int](depth, out) }

//go:noinline
func zzvGeneric[T any](depth int, out *[]uintptr) { zzvLeaf(depth, out) }

func zzvInlined(depth int, out *[]uintptr) { zzvLeafInner(depth, out) }

//go:noinline
func zzvLeaf(depth int, out *[]uintptr) { zzvInlined(depth, out) }

//go:noinline
func zzvLeafInner(depth int, out *[]uintptr) {
	pcs := make([]uintptr, 32)
	n := runtime.Callers(1, pcs)
	*out = append(*out, pcs[:n]...)
}

func zzvPCPool() []uintptr {
	var out []uintptr
	(&zzvT{}).method(0, &out)
	if len(out) < 6 {
		panic("PC pool too small")
	}
	return out[:6]
}

// --- rendering ---------------------------------------------------------------------

type zzvFrame struct {
	sym      string // symbol text (free text, except when it is runtime.sigpanic)
	args     string
	file     string
	pc       uintptr
	hasPC    bool
	sigpanic bool
	tail     string // text after the pc= field of the location line (normally none)
	spName   string // spelling of the sp field name ("" = sp; "-" = neither sp nor fp field)
}

type zzvTrace struct {
	preamble  []string // text before the sentinel
	sentinel  uint64
	message   []string // panic message etc. between sentinel and goroutines
	otherG    []string // a non-running goroutine block printed first
	frames    []zzvFrame
	trailer   []string // after the running goroutine (other goroutines, registers)
	createdBy string
}

func (t zzvTrace) render() string {
	var b strings.Builder
	for _, l := range t.preamble {
		b.WriteString(l + "\n")
	}
	fmt.Fprintf(&b, "sentinel %x\n", t.sentinel)
	for _, l := range t.message {
		b.WriteString(l + "\n")
	}
	if len(t.otherG) > 0 {
		for _, l := range t.otherG {
			b.WriteString(l + "\n")
		}
		b.WriteString("\n")
	}
	b.WriteString("goroutine 1 [running]:\n")
	for _, f := range t.frames {
		sym := f.sym
		if f.sigpanic {
			sym = "runtime.sigpanic"
		}
		fmt.Fprintf(&b, "%s(%s)\n", sym, f.args)
		if f.hasPC {
			switch f.spName {
			case "":
				fmt.Fprintf(&b, "\t%s:12 +0x1d sp=0xc000012340 fp=0xc000012380 pc=0x%x%s\n", f.file, f.pc, f.tail)
			case "-":
				fmt.Fprintf(&b, "\t%s:12 +0x1d pc=0x%x%s\n", f.file, f.pc, f.tail)
			default:
				fmt.Fprintf(&b, "\t%s:12 +0x1d %s=0xc000012340 fp=0xc000012380 pc=0x%x%s\n", f.file, f.spName, f.pc, f.tail)
			}
		} else {
			fmt.Fprintf(&b, "\t%s:12\n", f.file)
		}
	}
	if t.createdBy != "" {
		b.WriteString("created by " + t.createdBy + " in goroutine 7\n\t/x/y.go:1 +0x1\n")
	}
	b.WriteString("\n")
	for _, l := range t.trailer {
		b.WriteString(l + "\n")
	}
	return b.String()
}

// expected computes the counter name the traceback must produce: the PCs of
// the frames that carry one, +1 for a frame following the signal-panic frame,
// relocated by (child sentinel - parent sentinel), at most 16 of them.
func (t zzvTrace) expected() string {
	var pcs []uintptr
	prevSig := false
	for _, f := range t.frames {
		if !f.hasPC {
			continue
		}
		pc := uint64(f.pc) - t.sentinel + sentinel()
		if prevSig {
			pc++
		}
		pcs = append(pcs, uintptr(pc))
		prevSig = f.sigpanic
	}
	if len(pcs) == 0 {
		return "crash/no-running-goroutine"
	}
	if len(pcs) > 16 {
		pcs = pcs[:16]
	}
	// at most 16 frames: a program counter inside inlined calls renders as one frame per call, so the
	// rendering of 16 program counters is cut after its 16th frame line
	name := counter.EncodeStack(pcs, "crash/crash")
	if lines := strings.Split(name, "\n"); len(lines) > 17 {
		name = strings.Join(lines[:17], "\n")
	}
	return name
}

type zzvNameOut struct {
	name     string
	err      error
	panicked string
}

func zzvName(text string) (out zzvNameOut) {
	defer func() {
		if r := recover(); r != nil {
			out.panicked = fmt.Sprintf("%v\n%s", r, debug.Stack())
		}
	}()
	n, err := telemetryCounterName([]byte(text))
	return zzvNameOut{name: n, err: err}
}

var zzvFrameLine = regexp.MustCompile(`^.*[^:]*:[=+-]?[0-9]+,\+0x[0-9a-f]+$`)

// shape checks the structural clause of the property.
func zzvShape(res *vrep.Result, out zzvNameOut, desc string) {
	fail := func(sig, format string, args ...any) {
		res.Violate(sig, fmt.Sprintf(format, args...)+" ["+desc+"]", map[string]any{"case": desc})
	}
	switch {
	case out.panicked != "":
		fail("name-panic", "telemetryCounterName panics: %s", strings.SplitN(out.panicked, "\n", 2)[0])
	case out.err != nil, out.name == "crash/no-running-goroutine":
	default:
		lines := strings.Split(out.name, "\n")
		if lines[0] != "crash/crash" {
			fail("name-prefix", "name starts with %q", lines[0])
		}
		// At most 16 frames follow the prefix (a program counter inside inlined calls counts once per call).
		// every frame line is whole, unless the name is marked as cut to the size limit (then only the last
		// frame line before the marker may be incomplete)
		marked := strings.HasSuffix(out.name, "\ntruncated\n")
		fl := lines[1:]
		if marked && len(fl) >= 2 {
			fl = fl[:len(fl)-2] // "truncated" and the empty string after the final newline
			if len(fl) > 0 {
				fl = fl[:len(fl)-1] // the possibly incomplete last frame
			}
		}
		for _, l := range fl {
			if !zzvFrameLine.MatchString(l) {
				fail("partial-frame-unmarked", "frame line %q is not a whole frame and the name carries no truncation marker", l)
				break
			}
		}
		if marked {
			lines = lines[:len(lines)-2]
		}
		if len(lines)-1 > 16 {
			fail("too-many-frames", "%d frame lines", len(lines)-1)
		}
		if len(out.name) > 4096 {
			fail("name-too-long", "name of %d bytes", len(out.name))
		}
		if strings.Contains(out.name, "PII") {
			fail("text-leaked", "name contains text of the crash report: %q", out.name)
		}
	}
}

func TestVerifC14(t *testing.T) {
	if os.Getenv("VERIF_CRASH") != "" {
		zzvCrashChild(os.Getenv("VERIF_CRASH"))
		return
	}
	p := vrep.Env()
	res := vrep.New("C14", p)
	defer res.Guard()
	res.Rule = "E3: (A) well-formed tracebacks for every PC sequence of length 0-3 over a pool of 6 real PCs (method, generic, inlined, plain) + 0, 1, 2^64-1, x sentinel offsets x sigpanic positions x missing-pc frames, and 1-20 frame repetitions: name must equal the encoding of the PCs by construction; (B) every single substitution of each free-text slot by 4 alternatives incl. frame-like and sentinel-like text: name unchanged or error; (C) every sequence of up to 5 (thorough 6) lines over 25 line kinds: total, well-shaped, no input text in the output; (D) 7 real crashing children of this executable (nil dereference, panic, inlined frame, recursion 40 and 150 deep, other goroutine, locked thread)"
	res.Assumptions = []string{"PCs come from functions of the harness binary (method, generic instantiation, inlined callee)", "the reference for (A) is the generator's own PC list, encoded by counter.EncodeStack (whose faithfulness is C15's subject)"}
	pool := zzvPCPool()
	odd := []uintptr{0, 1, ^uintptr(0)}
	idx := 0
	mine := func() bool { idx++; return p.Mine(idx) }
	mkFrame := func(i int, pc uintptr) zzvFrame {
		file := fmt.Sprintf("/home/PIIuser/src/f%d.go", i)
		if i%2 == 0 {
			// a legal directory name; the traceback is still a genuine one
			file = fmt.Sprintf("/home/PIIuser/my fp=1 sp=2 pc=3 dir/f%d.go", i)
		}
		return zzvFrame{sym: fmt.Sprintf("example.com/PII%d/pkg.(*T).method", i), args: "0xPII, {0x1, 0x2}, ...", file: file, pc: pc, hasPC: true}
	}
	base := func(frames []zzvFrame, sent uint64) zzvTrace {
		return zzvTrace{sentinel: sent, message: []string{"panic: PII message [recovered]", "\tpanic: runtime error: PII", "[signal SIGSEGV: segmentation violation code=0x1 addr=0x0 pc=0x48f0a7]", ""}, frames: frames}
	}
	// (A) generated tracebacks.
	var seqs [][]uintptr
	all := append(append([]uintptr{}, pool...), odd...)
	seqs = append(seqs, nil)
	for _, a := range all {
		seqs = append(seqs, []uintptr{a})
		for _, b := range all {
			seqs = append(seqs, []uintptr{a, b})
			if p.Thorough() {
				for _, c := range all {
					seqs = append(seqs, []uintptr{a, b, c})
				}
			}
		}
	}
	for n := 3; n <= 20; n++ {
		var s []uintptr
		for i := 0; i < n; i++ {
			s = append(s, pool[i%len(pool)])
		}
		seqs = append(seqs, s)
	}
	for _, seq := range seqs {
		for _, off := range []uint64{0, 0x1000, 0x7f0000000000} {
			for sig := -1; sig < len(seq) && sig < 3; sig++ {
				for nopc := -1; nopc < len(seq) && nopc < 2; nopc++ {
					if !mine() {
						continue
					}
					var frames []zzvFrame
					for i, pc := range seq {
						f := mkFrame(i, pc)
						f.pc = uintptr(uint64(pc) + off) // the parent's text is mapped off bytes higher
						if i == sig {
							f.sigpanic = true
						}
						if i == nopc {
							f.hasPC = false
						}
						frames = append(frames, f)
					}
					tr := base(frames, sentinel()+off)
					text := tr.render()
					out := zzvName(text)
					res.Evaluations++
					desc := fmt.Sprintf("A: pcs=%x sentinel+%#x sigpanic@%d nopc@%d", seq, off, sig, nopc)
					zzvShape(res, out, desc)
					want := tr.expected()
					if out.panicked == "" && (out.err != nil || out.name != want) {
						res.Violate("name-differs-from-pcs", fmt.Sprintf("name %q (err %v), the program counters of the running goroutine encode to %q [%s]", out.name, out.err, want, desc), map[string]any{"case": desc, "text": text})
					}
					res.Class(fmt.Sprintf("A/frames=%d/sig=%v/nopc=%v", min(len(seq), 4), sig >= 0, nopc >= 0))
					if res.Evaluations%400 == 1 {
						res.Sample(4, map[string]any{"leg": "generated", "case": desc, "name": out.name})
					}
				}
			}
		}
	}
	// (A2) frames whose lines are so long that the size limit of counter names cuts into the first 16 frames:
	// the name must either consist of whole frames or carry the truncation marker.
	for _, n := range []int{12, 15, 16, 17, 20, 30} {
		if !mine() {
			continue
		}
		var frames []zzvFrame
		for i, pc := range zzvLongNamePCs(n) {
			frames = append(frames, mkFrame(i, pc))
		}
		tr := base(frames, sentinel())
		out := zzvName(tr.render())
		res.Evaluations++
		desc := fmt.Sprintf("A2: %d frames of a function with a 248-byte name", n)
		zzvShape(res, out, desc)
		if out.err != nil || out.panicked != "" {
			res.Violate("name-differs-from-pcs", fmt.Sprintf("genuine traceback rejected: %v [%s]", out.err, desc), nil)
		}
		res.Class(fmt.Sprintf("A2/frames=%d/marked=%v", n, strings.HasSuffix(out.name, "\ntruncated\n")))
	}
	// (B) free-text substitution.
	// The runtime indents the continuation lines of a multi-line panic message with a tab, so
	// that a message cannot forge a goroutine header; indented header-like text is free text.
	alts := []string{"PIIalt", "runtime.sigpanic()", "goroutine 9 [running]:", "sentinel 1234", "\tx.go:1 +0x1 sp=0x1 fp=0x2 pc=0x" + fmt.Sprintf("%x", pool[0]), "",
		"\tgoroutine 9 [running]:", "  goroutine 9 [running]:", "\tgoroutine 9 [running]:\n\tPII.forged(...)\n\t\t/PII/f.go:1 +0x1 sp=0x1 fp=0x2 pc=0x" + fmt.Sprintf("%x", pool[1]), "\tsentinel 1234"}
	for _, n := range []int{1, 2, 5} {
		var frames []zzvFrame
		for i := 0; i < n; i++ {
			frames = append(frames, mkFrame(i, pool[i%len(pool)]))
		}
		if n == 5 {
			frames[1].sigpanic = true
			frames[3].hasPC = false // an inlined frame: its location line is just FILE:LINE
		}
		b0 := base(frames, sentinel())
		b0.preamble = []string{"PII preamble line", "another PII line"}
		b0.otherG = []string{"goroutine 5 [sleep]:", "time.Sleep(0xPII)", "\t/usr/lib/go/src/runtime/time.go:195 +0x12 fp=0x1 sp=0x2 pc=0x45678"}
		b0.trailer = []string{"goroutine 6 [select]:", "PII.other(...)", "\t/PII/z.go:3 +0x5 fp=0x1 sp=0x2 pc=0x4abcd", "", "rax    0xPII", "rip    0x48f0a7"}
		b0.createdBy = "example.com/PII.start"
		want := zzvName(b0.render())
		if want.err != nil || want.panicked != "" {
			res.Violate("base-traceback-rejected", fmt.Sprintf("well-formed base traceback rejected: %v %s", want.err, want.panicked), nil)
			continue
		}
		subst := func(desc string, mod func(t *zzvTrace)) {
			if !mine() {
				return
			}
			t2 := b0
			t2.frames = append([]zzvFrame{}, b0.frames...)
			t2.preamble = append([]string{}, b0.preamble...)
			t2.message = append([]string{}, b0.message...)
			t2.otherG = append([]string{}, b0.otherG...)
			t2.trailer = append([]string{}, b0.trailer...)
			mod(&t2)
			out := zzvName(t2.render())
			res.Evaluations++
			d := fmt.Sprintf("B: %d frames, %s", n, desc)
			zzvShape(res, out, d)
			if out.panicked == "" && out.err == nil && out.name != want.name {
				res.Violate("name-depends-on-free-text", fmt.Sprintf("changing %s changed the name from %q to %q", desc, want.name, out.name), map[string]any{"case": d, "text": t2.render()})
			}
			res.Class(fmt.Sprintf("B/changed=%v/err=%v", out.name != want.name, out.err != nil))
		}
		// text after the pc= field of a location line
		for i := range frames {
			i := i
			for ti, tail := range []string{" ", "\r", "\t", " PII", " extra=0x10", ","} {
				tail := tail
				subst(fmt.Sprintf("text after pc= of frame %d -> tail%d", i, ti), func(t *zzvTrace) { t.frames[i].tail = tail })
				// ... combined with other text of the line changed (field names, separators)
				subst(fmt.Sprintf("text after pc= of frame %d -> tail%d, sp= spelled SP=", i, ti), func(t *zzvTrace) { t.frames[i].tail = tail; t.frames[i].spName = "SP" })
				subst(fmt.Sprintf("text after pc= of frame %d -> tail%d, no sp/fp fields", i, ti), func(t *zzvTrace) { t.frames[i].tail = tail; t.frames[i].spName = "-" })
			}
		}
		for ai, alt := range alts {
			alt := alt
			multi := alt
			alt = strings.ReplaceAll(alt, "\n", " ") // only message-like slots can span lines
			for i := range frames {
				i := i
				if !frames[i].sigpanic {
					subst(fmt.Sprintf("symbol of frame %d -> alt%d", i, ai), func(t *zzvTrace) { t.frames[i].sym = strings.TrimSuffix(strings.TrimSuffix(alt, "()"), ":") + "PII" })
				}
				subst(fmt.Sprintf("args of frame %d -> alt%d", i, ai), func(t *zzvTrace) { t.frames[i].args = strings.ReplaceAll(alt, "\n", " ") })
				subst(fmt.Sprintf("file of frame %d -> alt%d", i, ai), func(t *zzvTrace) { t.frames[i].file = "/PII/" + strings.ReplaceAll(alt, "\t", "") })
				subst(fmt.Sprintf("file of frame %d -> path with pc= inside (alt%d)", i, ai), func(t *zzvTrace) {
					t.frames[i].file = "/home/PII/my pc=1 dir/" + strings.ReplaceAll(alt, "\t", "") + "/main.go"
				})
			}
			for i := range b0.message {
				i := i
				subst(fmt.Sprintf("message line %d -> alt%d", i, ai), func(t *zzvTrace) {
					if strings.HasPrefix(multi, "goroutine") || strings.HasPrefix(multi, "sentinel") {
						t.message[i] = "PII " + multi
					} else {
						t.message[i] = multi
					}
				})
			}
			for i := range b0.preamble {
				i := i
				subst(fmt.Sprintf("preamble line %d -> alt%d", i, ai), func(t *zzvTrace) {
					if strings.HasPrefix(alt, "goroutine") || strings.HasPrefix(alt, "sentinel") {
						t.preamble[i] = "PII " + alt
					} else {
						t.preamble[i] = alt
					}
				})
			}
			for i := range b0.trailer {
				i := i
				subst(fmt.Sprintf("trailer line %d -> alt%d", i, ai), func(t *zzvTrace) { t.trailer[i] = alt })
			}
			for i := 1; i < len(b0.otherG); i++ {
				i := i
				subst(fmt.Sprintf("other goroutine line %d -> alt%d", i, ai), func(t *zzvTrace) {
					if strings.HasPrefix(alt, "goroutine") {
						t.otherG[i] = "PII " + alt
					} else {
						t.otherG[i] = alt
					}
				})
			}
			subst(fmt.Sprintf("created-by -> alt%d", ai), func(t *zzvTrace) { t.createdBy = "PII" + strings.ReplaceAll(alt, "\t", "") })
		}
	}
	// (C) all short line sequences.
	pc0 := fmt.Sprintf("%x", pool[0])
	kinds := []string{
		fmt.Sprintf("sentinel %x", sentinel()), fmt.Sprintf("sentinel %x", sentinel()+0x1000), "sentinel zz", "sentinel ",
		"goroutine 1 [running]:", "goroutine 2 [sleep]:", "goroutine 3 [running, locked to thread]:", "", "created by PII.main in goroutine 1",
		"\tgoroutine 1 [running]:",
		"PII.f(...)", "PIIpkg.(*T).m(0x1, {0x2})", "PIIpkg.F[...](...)", "runtime.sigpanic()", "runtime.sigpanic", "PII text without paren",
		"\t/PII/f.go:1 +0x1 sp=0x1 fp=0x2 pc=0x" + pc0, "\t/PII/f.go:1 +0x1", "\t/PII/f.go:1 pc=0xzz", "\t/PII/f.go:1 pc=0x" + pc0 + " PIItrailing", "\t/PII/f.go:1 pc=0xffffffffffffffff", "\t/PII/f.go:1 pc=0x0",
		"PII line with\r",
		"(*PIIT).m(0x1)", "(", // symbol-like lines that begin with a parenthesis
	}
	maxLen := 4
	if p.Thorough() {
		maxLen = 5
	}
	var rec func(prefix []int)
	rec = func(prefix []int) {
		if len(prefix) > 0 && mine() {
			var b strings.Builder
			for _, k := range prefix {
				b.WriteString(kinds[k] + "\n")
			}
			out := zzvName(b.String())
			res.Evaluations++
			zzvShape(res, out, fmt.Sprintf("C: line kinds %v", prefix))
			cl := "error"
			if out.err == nil {
				cl = strings.SplitN(out.name, "\n", 2)[0] + fmt.Sprintf("/%d", strings.Count(out.name, "\n"))
			}
			res.Class("C/" + cl)
		}
		if len(prefix) == maxLen {
			return
		}
		for k := range kinds {
			rec(append(append([]int{}, prefix...), k))
		}
	}
	rec(nil)
	// (D) real crashes.
	if p.Mine(0) {
		zzvRealCrashes(res)
	}
	res.Transitions = res.Evaluations
	res.States = res.Evaluations
	res.Write()
}

// --- real crashing children --------------------------------------------------------

var zzvSink *int

//go:noinline
func zzvCrashNil(p *int) int {
	x := 1
	x += *p // this line is zzvCrashNil:+2
	return x
}

//go:noinline
func zzvCrashMid(kind string) int {
	switch kind {
	case "nil":
		return zzvCrashNil(zzvSink) // zzvCrashMid:+3
	case "panic":
		panic("PII oops") // zzvCrashMid:+5
	case "inlined":
		return zzvCrashInl(zzvSink)
	case "deep":
		return zzvCrashDeep(40)
	case "deeper":
		return zzvCrashDeep(150) // more than 100 frames: the runtime elides the middle of the traceback
	}
	return 0
}

func zzvCrashInl(p *int) int { return *p + 1 }

//go:noinline
func zzvCrashDeep(n int) int {
	if n == 0 {
		panic("PII deep")
	}
	return zzvCrashDeep(n-1) + 1
}

func zzvCrashChild(kind string) {
	f, err := os.OpenFile(os.Getenv("VERIF_CRASH_OUT"), os.O_WRONLY|os.O_CREATE|os.O_TRUNC, 0o666)
	if err != nil {
		panic(err)
	}
	writeSentinel(f)
	debug.SetTraceback("system")
	debug.SetCrashOutput(f, debug.CrashOptions{})
	switch kind {
	case "goroutine":
		done := make(chan bool)
		go func() { zzvCrashMid("nil"); done <- true }()
		<-done
	case "locked":
		runtime.LockOSThread()
		zzvCrashMid("nil")
	default:
		zzvCrashMid(kind)
	}
	os.Exit(0)
}

func zzvRealCrashes(res *vrep.Result) {
	exe, _ := os.Executable()
	dir, _ := os.MkdirTemp("", "verif-c14-")
	defer os.RemoveAll(dir)
	want := map[string][]string{
		// Line offsets are relative to the line of the function's first instruction.
		"nil":       {"crashmonitor.zzvCrashNil:", "crashmonitor.zzvCrashMid:+3"},
		"panic":     {"crashmonitor.zzvCrashMid:+5"},
		"inlined":   {"zzvCrashInl:", "zzvCrashMid:"},
		"deep":      {"crashmonitor.zzvCrashDeep:"},
		"deeper":    {"crashmonitor.zzvCrashDeep:"},
		"goroutine": {"crashmonitor.zzvCrashNil:", "crashmonitor.zzvCrashMid:+3"},
		"locked":    {"crashmonitor.zzvCrashNil:", "crashmonitor.zzvCrashMid:+3"},
	}
	for kind, frames := range want {
		out := dir + "/" + kind + ".txt"
		cmd := exec.Command(exe, "-test.run", "^TestVerifC14$")
		cmd.Env = append(os.Environ(), "VERIF_CRASH="+kind, "VERIF_CRASH_OUT="+out, "VERIF_OUT=")
		cmd.Run()
		data, _ := os.ReadFile(out)
		res.Evaluations++
		res.Validated++
		if strings.Count(string(data), "\n") < 3 {
			res.Violate("real-crash-no-traceback", fmt.Sprintf("child %q produced no traceback (%d bytes)", kind, len(data)), nil)
			continue
		}
		o := zzvName(string(data))
		zzvShape(res, o, "D: real crash "+kind)
		if o.err != nil || o.panicked != "" {
			res.Violate("real-crash-rejected:"+kind, fmt.Sprintf("genuine traceback of kind %q rejected: %v", kind, o.err), map[string]any{"kind": kind, "traceback": string(data)})
			continue
		}
		dec := counter.DecodeStack(o.name)
		pos := 0
		for _, f := range frames {
			i := strings.Index(dec[pos:], f)
			if i < 0 {
				res.Violate("real-crash-frames:"+kind, fmt.Sprintf("genuine traceback of kind %q: name %q does not name %s on the crashing goroutine's stack (in order)", kind, dec, f), map[string]any{"kind": kind, "traceback": string(data)})
				break
			}
			pos += i
		}
		res.Class("D/" + kind)
		res.Sample(10, map[string]any{"leg": "real-crash", "kind": kind, "name": dec})
	}
}

// A recursive function with a very long name: 16 frames of it exceed the 4096-byte limit of counter names, so
// the size cut of EncodeStack falls inside one of the first 16 frame lines.
//
//go:noinline
func zzvRecursiveFunctionWithAVeryLongNameSoThatSixteenFramesOfItDoNotFitIntoTheFourKilobyteLimitOfCounterNamesAndTheSizeCutOfEncodeStackFallsInsideOneOfTheFirstSixteenFrameLinesWhichIsWhatThisCaseIsAboutPaddingPaddingPaddingPaddingPaddingPaddingPadding(depth int, out *[]uintptr) {
	if depth == 0 {
		pcs := make([]uintptr, 64)
		n := runtime.Callers(1, pcs)
		*out = append(*out, pcs[:n]...)
		return
	}
	zzvRecursiveFunctionWithAVeryLongNameSoThatSixteenFramesOfItDoNotFitIntoTheFourKilobyteLimitOfCounterNamesAndTheSizeCutOfEncodeStackFallsInsideOneOfTheFirstSixteenFrameLinesWhichIsWhatThisCaseIsAboutPaddingPaddingPaddingPaddingPaddingPaddingPadding(depth-1, out)
}

func zzvLongNamePCs(n int) []uintptr {
	var out []uintptr
	zzvRecursiveFunctionWithAVeryLongNameSoThatSixteenFramesOfItDoNotFitIntoTheFourKilobyteLimitOfCounterNamesAndTheSizeCutOfEncodeStackFallsInsideOneOfTheFirstSixteenFrameLinesWhichIsWhatThisCaseIsAboutPaddingPaddingPaddingPaddingPaddingPaddingPadding(n, &out)
	if len(out) > n {
		out = out[:n]
	}
	return out
}
