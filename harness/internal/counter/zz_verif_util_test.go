//go:build verif

package counter

import "encoding/json"

func zzvJSON(data []byte, v any) error { return json.Unmarshal(data, v) }
