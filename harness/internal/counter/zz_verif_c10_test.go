//go:build verif

package counter

// C10 — written counter files conform to the documented v1 format.
// (a) E3: complete sweep of record placement over a two-page period of
//     limits x every name length 1..4096 against the reference rule.
// (b) E2: explicit-state search over operation sequences on real files
//     (fresh emulated process per operation, second concurrent writer,
//     close+reopen), every state decoded strictly by the reference decoder
//     and compared byte-for-byte with the file the reference writer builds
//     for the same sequence.
// (c) round trip both ways and metadata size cap.

import (
	"bytes"
	"crypto/sha256"
	"fmt"
	"os"
	"strings"
	"testing"

	"golang.org/x/telemetry/internal/mmap"
	"golang.org/x/telemetry/internal/verifshim/ref"
	"golang.org/x/telemetry/internal/verifshim/vrep"
)

type zzvC10Op struct {
	kind  string // new | inc | two
	class int    // name class (new, two)
	cls2  int    // second writer's class (two)
	k     int    // index of the existing counter (inc)
}

func (o zzvC10Op) String() string {
	switch o.kind {
	case "new":
		return fmt.Sprintf("new(%s)", zzvC10Classes[o.class].label)
	case "inc":
		return fmt.Sprintf("inc(#%d)", o.k)
	}
	return fmt.Sprintf("two(%s,%s)", zzvC10Classes[o.class].label, zzvC10Classes[o.cls2].label)
}

var zzvC10Classes = []struct {
	label string
	n     int
	fill  string
}{
	{"1B", 1, ""}, {"16B", 16, "n"}, {"17B", 17, "n"}, {"48B", 48, "n"}, {"4079B", 4079, "n"}, {"4080B", 4080, "n"}, {"4096B", 4096, "n"},
	{"bytes", 24, "\x00\n\xff"},
	{"0B", 0, ""},       // outside the format's name range: must be refused, leaving the file conformant
	{"4097B", 4097, "n"}, // likewise
	// two spellings of one stack (the second abbreviates the repeated import path): distinct names in the
	// file that decode to the same name
	{"alias", -1, ""},
}

// zzvC10Name returns the seq-th distinct name of a class.
func zzvC10Name(class, seq int) string {
	c := zzvC10Classes[class]
	if c.n == 0 {
		return ""
	}
	if c.n < 0 {
		if seq%2 == 0 {
			return fmt.Sprintf("stk%d\npkg/a.f:+1,+0x10\npkg/a.g:+2,+0x20", seq/2)
		}
		return fmt.Sprintf("stk%d\npkg/a.f:+1,+0x10\n\".g:+2,+0x20", seq/2)
	}
	if c.n == 1 {
		return string(rune('a' + seq%26))
	}
	head := fmt.Sprintf("%s%d/", c.label, seq)
	fill := c.fill
	if fill == "" {
		fill = "n"
	}
	s := head + strings.Repeat(fill, c.n)
	return s[:c.n]
}

type zzvC10Model struct {
	names  []string // in creation order
	values map[string]uint64
	seq    []int // per class: names created so far
	single bool  // only single-writer operations so far (byte equality with the reference writer expected)
	refw   *ref.CFWriter
}

// zzvC10Build replays a history on a fresh directory with the real library
// and in parallel on the model; it returns the file image.
func zzvC10Build(base string, hist []zzvC10Op) (data []byte, m *zzvC10Model, errs []string) {
	w := zzvNewWorld(base, "")
	defer w.teardown()
	m = &zzvC10Model{values: map[string]uint64{}, seq: make([]int, len(zzvC10Classes)), single: true}
	open := func() *file {
		f := &file{buildInfo: zzvBuildInfo()}
		f.rotate1()
		if f.current.Load() == nil {
			errs = append(errs, fmt.Sprintf("open failed: %v", f.err))
			return nil
		}
		return f
	}
	closef := func(f *file) {
		if f != nil {
			if mf := f.current.Load(); mf != nil {
				mf.close()
			}
		}
	}
	add := func(f *file, name string, n uint64) {
		c := &Counter{name: name, file: f}
		c.Add(int64(n))
		if len(name) == 0 || len(name) > 4096 {
			return // not representable in the format: the count stays in memory
		}
		if x := zzvExtra(c); x != 0 {
			errs = append(errs, fmt.Sprintf("increment of %q stayed pending (%d) although the file is open", zzvShort(name), x))
		}
	}
	newName := func(class int) string {
		n := zzvC10Name(class, m.seq[class])
		m.seq[class]++
		if len(n) >= 1 && len(n) <= 4096 {
			m.names = append(m.names, n)
		}
		return n
	}
	bump := func(n string, v uint64) {
		if len(n) >= 1 && len(n) <= 4096 {
			m.values[n] += v
		}
	}
	for _, op := range hist {
		switch op.kind {
		case "new":
			f := open()
			if f == nil {
				return nil, m, errs
			}
			n := newName(op.class)
			add(f, n, 1)
			bump(n, 1)
			closef(f)
		case "inc":
			if op.k >= len(m.names) {
				continue
			}
			f := open()
			if f == nil {
				return nil, m, errs
			}
			n := m.names[op.k]
			add(f, n, 3)
			m.values[n] += 3
			closef(f)
		case "two":
			fa, fb := open(), open()
			if fa == nil || fb == nil {
				return nil, m, errs
			}
			na, nb := newName(op.class), newName(op.cls2)
			add(fa, na, 1)
			add(fb, nb, 2) // fb's mapping predates fa's write (and possibly fa's extension)
			add(fa, nb, 4) // and fa must find fb's record
			bump(na, 1)
			bump(nb, 6)
			closef(fa)
			closef(fb)
		}
	}
	ents, _ := os.ReadDir(w.dir + "/local")
	for _, e := range ents {
		if strings.HasSuffix(e.Name(), ".count") {
			data, _ = os.ReadFile(w.dir + "/local/" + e.Name())
		}
	}
	return data, m, errs
}

// zzvC10RefBytes builds the same content with the reference writer (single
// writer histories only: placement is then a function of the sequence).
func zzvC10RefBytes(meta string, hist []zzvC10Op) []byte {
	w := ref.NewCFWriter(meta)
	seq := make([]int, len(zzvC10Classes))
	var names []string
	for _, op := range hist {
		switch op.kind {
		case "new":
			n := zzvC10Name(op.class, seq[op.class])
			seq[op.class]++
			if len(n) == 0 || len(n) > 4096 {
				continue
			}
			names = append(names, n)
			w.Add(n, 1)
		case "inc":
			if op.k < len(names) {
				w.Add(names[op.k], 3)
			}
		case "two":
			na := zzvC10Name(op.class, seq[op.class])
			seq[op.class]++
			nb := zzvC10Name(op.cls2, seq[op.cls2])
			seq[op.cls2]++
			names = append(names, na, nb)
			w.Add(na, 1)
			w.Add(nb, 2)
			w.Add(nb, 4)
		}
	}
	return w.Bytes()
}

func zzvC10Check(res *vrep.Result, hist []zzvC10Op, data []byte, m *zzvC10Model, errs []string, prevLimit uint32) (limit uint32) {
	desc := fmt.Sprint(hist)
	fail := func(sig, format string, args ...any) {
		res.Violate(sig, fmt.Sprintf(format, args...)+" after "+desc, map[string]any{"history": desc})
	}
	for _, e := range errs {
		fail("operation-failed", "%s", e)
	}
	if data == nil {
		if len(m.values) > 0 {
			fail("no-file", "no counter file")
		}
		return 0
	}
	cf, err := ref.DecodeCounterFile(data)
	if err != nil {
		fail("not-v1-layout", "reference decoder rejects the file: %v", err)
		return 0
	}
	if cf.Limit < prevLimit {
		fail("limit-decreased", "limit %#x below predecessor's %#x", cf.Limit, prevLimit)
	}
	if len(cf.Values) != len(m.values) {
		fail("readback-differs", "reference decoder reads %d counters, %d were written", len(cf.Values), len(m.values))
	}
	for n, v := range m.values {
		if cf.Values[n] != v {
			fail("readback-differs", "counter %q: reference decoder reads %d, written %d", zzvShort(n), cf.Values[n], v)
			break
		}
	}
	if cf.MetaRaw != zzvC10Meta() {
		fail("meta-differs", "metadata read back %q, want %q", cf.MetaRaw, zzvC10Meta())
	}
	// The library reads its own file identically.
	pf, perr := Parse("f", data)
	if perr != nil {
		fail("library-rejects-own-file", "Parse: %v", perr)
	} else {
		// The library's map is keyed by the decoded name; names that decode alike count the same stack.
		want := map[string]uint64{}
		for n, v := range m.values {
			want[ref.ExpandStack(n)] += v
		}
		if len(want) != len(pf.Count) {
			fail("library-readback-differs", "Parse returns %d counters, %d distinct decoded names were written", len(pf.Count), len(want))
		}
		for n, v := range want {
			if pf.Count[n] != v {
				fail("library-readback-differs", "counter %q: Parse reads %d, written %d", zzvShort(n), pf.Count[n], v)
				break
			}
		}
	}
	// Byte equality with the reference writer.
	rb := zzvC10RefBytes(zzvC10Meta(), hist)
	if !bytes.Equal(rb, data) {
		i := 0
		for i < len(rb) && i < len(data) && rb[i] == data[i] {
			i++
		}
		fail("bytes-differ-from-reference-writer", "file differs from the reference writer's image at offset %#x (sizes %d / %d)", i, len(data), len(rb))
	} else {
		// Files the reference writes are read identically by the library (same bytes),
		// and the reference image itself is well-formed.
		if _, err := ref.DecodeCounterFile(rb); err != nil {
			fail("reference-image-malformed", "%v", err)
		}
	}
	return cf.Limit
}

func zzvC10Meta() string {
	return "TimeBegin: 2024-01-03T00:00:00Z\nTimeEnd: 2024-01-07T00:00:00Z\nProgram: example.com/prog\nVersion: v1.0.0\nGoVersion: go1.23.5\nGOOS: linux\nGOARCH: amd64\n\n"
}

func TestVerifC10(t *testing.T) {
	p := vrep.Env()
	res := vrep.New("C10", p)
	defer res.Guard()
	base, cleanup := vrep.Scratch("c10")
	defer cleanup()
	res.Rule = "(a) every (32-aligned limit in two page periods, name length 1..4096) pair through the real place(); (b) breadth-first search over operation sequences {new counter of 11 name classes (lengths 0..4097, arbitrary bytes, two spellings of one stack), add to existing, two concurrent writers} with a fresh emulated process per operation, each state decoded strictly by the reference decoder, compared with the model and byte-for-byte with the reference writer; classes = distinct (pages, records) shapes and placement outcomes"
	res.Assumptions = []string{"reference codec engine/ref/counterfile.go written from the documented layout", "little-endian host"}
	if p.Replay != "" {
		fmt.Println("C10 replay: the artefact's history is a deterministic operation list; re-run the quick check")
		return
	}

	// (a) placement sweep.
	big := strings.Repeat("x", 4096)
	mf := &mappedFile{hdrLen: uint32(len(ref.HeaderFor(zzvC10Meta())))}
	tableEnd := mf.hdrLen + 4 + 4*512
	var limits []uint32
	limits = append(limits, 0, tableEnd+1, tableEnd+7, 16384-1, 16384+1)
	for l := (tableEnd + 31) / 32 * 32; l <= 3*16384; l += 32 {
		limits = append(limits, l)
	}
	for li, l := range limits {
		if !p.Mine(li) {
			continue
		}
		for n := 1; n <= 4096; n++ {
			s, e := mf.place(l, big[:n])
			rs, re := ref.Place(mf.hdrLen, l, n)
			res.Evaluations++
			if s != rs || e != re {
				res.Violate("placement-differs", fmt.Sprintf("place(limit=%#x, len=%d) = [%#x,%#x), documented rule gives [%#x,%#x)", l, n, s, e, rs, re), map[string]any{"limit": l, "len": n})
			}
			switch {
			case s/16384 != l/16384 && l%16384 != 0:
				res.Class("place/bumped-to-next-page")
			case (e+32)/16384 != s/16384:
				res.Class("place/last-slot-of-page")
			default:
				res.Class("place/in-page")
			}
		}
	}
	res.Sample(3, map[string]any{"leg": "placement", "limits": len(limits), "name_lengths": "1..4096"})

	// (c) metadata size cap through the real openMapped.
	if p.Mine(0) {
		var metaLens []int
		for n := 6; n <= 514; n++ { // every length (all residues modulo the record unit) up to just over the cap
			metaLens = append(metaLens, n)
		}
		metaLens = append(metaLens, 4096)
		for _, n := range metaLens {
			dir, _ := os.MkdirTemp(base, "meta")
			meta := "K: " + strings.Repeat("v", n-5) + "\n\n"
			m, err := openMapped(dir+"/f.v1.count", meta)
			res.Evaluations++
			switch {
			case n <= 512 && err != nil:
				res.Violate("meta-refused", fmt.Sprintf("metadata of %d bytes refused: %v", n, err), map[string]any{"meta_len": n})
			case n > 512 && err == nil:
				res.Violate("meta-over-cap-accepted", fmt.Sprintf("metadata of %d bytes accepted (cap 512)", n), map[string]any{"meta_len": n})
			case err == nil:
				data, _ := os.ReadFile(dir + "/f.v1.count")
				cf, derr := ref.DecodeCounterFile(data)
				if derr != nil || cf.MetaRaw != meta {
					res.Violate("meta-roundtrip", fmt.Sprintf("metadata of %d bytes does not round-trip: %v", n, derr), map[string]any{"meta_len": n})
				}
				res.Class(fmt.Sprintf("meta/mod32=%d", n%32))
			default:
				res.Class("meta/refused")
			}
			if m != nil {
				m.close()
			}
			os.RemoveAll(dir)
		}
	}

	// (b) explicit-state search.
	var alphabet []zzvC10Op
	for c := range zzvC10Classes {
		alphabet = append(alphabet, zzvC10Op{kind: "new", class: c})
	}
	alphabet = append(alphabet, zzvC10Op{kind: "inc", k: 0}, zzvC10Op{kind: "inc", k: 1})
	for _, pr := range [][2]int{{0, 1}, {6, 0}, {0, 6}, {6, 6}, {5, 4}, {7, 6}} {
		alphabet = append(alphabet, zzvC10Op{kind: "two", class: pr[0], cls2: pr[1]})
	}
	depth := 4
	if p.Thorough() {
		depth = 5
	}
	type node struct {
		hist  []zzvC10Op
		limit uint32
	}
	seen := map[[32]byte]bool{}
	frontier := []node{{}}
	states, transitions := 0, 0
	for d := 0; d < depth && len(frontier) > 0; d++ {
		var next []node
		for _, nd := range frontier {
			for ai, op := range alphabet {
				if d == 0 && !p.Mine(ai) {
					continue // the tree is partitioned by its first operation
				}
				if p.Expired() {
					res.Exhaustive = false
					res.Note("search stopped by the time budget at depth %d with %d frontier states", d, len(frontier))
					goto done
				}
				h := append(append([]zzvC10Op{}, nd.hist...), op)
				data, m, errs := zzvC10Build(base, h)
				transitions++
				lim := zzvC10Check(res, h, data, m, errs, nd.limit)
				key := sha256.Sum256(data)
				if seen[key] {
					continue
				}
				seen[key] = true
				states++
				res.Class(fmt.Sprintf("state/pages=%d/records=%d", len(data)/16384, len(m.values)))
				if states%500 == 1 {
					res.Sample(8, map[string]any{"leg": "search", "history": fmt.Sprint(h), "file_bytes": len(data), "records": len(m.values)})
				}
				next = append(next, node{h, lim})
			}
		}
		frontier = next
	}
done:
	res.Note("search depth %d, alphabet %d operations", depth, len(alphabet))
	res.States += int64(states)
	res.Transitions += int64(transitions)
	res.Evaluations += int64(transitions)
	res.Validated += int64(transitions)
	_ = mmap.Data{}
	res.Write()
}
