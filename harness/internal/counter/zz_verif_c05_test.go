//go:build verif

package counter

// C05 (counter leg) — telemetry failures never crash, hang or block the host.
//  (1) E1 in fault mode: one thread runs open -> Add existing -> Add new ->
//      Add with growth -> rotation -> Add; every file-system / mmap call is a
//      fault choice point (errors, short write, stale size, short mapping,
//      foreign unlink / removal of the local directory); all single faults
//      (quick) and all pairs (thorough).
//  (2) E3: corrupt-at-rest grammar (single and pairwise field damage of valid
//      files); the real process opens the damaged file and increments an
//      existing, a colliding-new and a non-colliding-new counter under a step
//      budget.
//  (3) initial directory states.

import (
	"encoding/binary"
	"fmt"
	"os"
	"path/filepath"
	"runtime/debug"
	"sort"
	"strings"
	"syscall"
	"testing"

	"golang.org/x/telemetry/internal/telemetry"
	"golang.org/x/telemetry/internal/verifshim/ref"
	"golang.org/x/telemetry/internal/verifshim/sched"
	"golang.org/x/telemetry/internal/verifshim/vatomic"
	"golang.org/x/telemetry/internal/verifshim/vos"
	"golang.org/x/telemetry/internal/verifshim/vrep"
)

type zzvC05Run struct {
	w      *zzvWorld
	rest   map[string]uint64 // values at rest of the pre-existing counters
	own    map[string]uint64 // increments made by the process, per name
	others []string          // names the process never touches
}

func zzvC05FaultScenario(base string) *sched.Scenario {
	return &sched.Scenario{
		Name:     "F1-open-add-grow-rotate",
		MaxSteps: 5000,
		Setup: func(x *sched.Exec) {
			vos.Points, vos.Faults = false, true
			w := zzvNewWorld(base, "")
			r := &zzvC05Run{w: w, rest: map[string]uint64{}, own: map[string]uint64{}}
			x.Scratch = r
			// A file at rest with an existing counter, an untouched counter and fillers.
			f0 := &file{buildInfo: zzvBuildInfo()}
			f0.rotate1()
			f0.lookup("a").count.Store(5)
			f0.lookup("other").count.Store(9)
			for i := 0; i < 3; i++ {
				f0.lookup(fmt.Sprintf("filler%d/%s", i, strings.Repeat("f", 4000-8)))
			}
			f0.current.Load().close()
			r.rest["a"], r.rest["other"] = 5, 9
			r.others = []string{"other"}
			local := telemetry.Default.LocalDir()
			vos.FaultMenu = func(op, path string) []error {
				menu := []error{syscall.EIO}
				switch op {
				case "OpenFile", "ReadFile", "Stat", "ReadDir":
					menu = append(menu, syscall.ENOENT, syscall.EACCES)
				case "MkdirAll":
					menu = append(menu, syscall.EEXIST)
				case "FWriteAt", "FWrite":
					menu = append(menu, vos.ErrShort, syscall.ENOSPC)
				case "FStat":
					menu = append(menu, vos.ErrStaleStat)
				case "Mmap":
					menu = []error{syscall.ENOMEM, vos.ErrShortMap}
				case "FClose":
					return []error{syscall.EIO}
				}
				menu = append(menu,
					&vos.Foreign{Name: "unlink-count-files", Do: func() {
						ents, _ := os.ReadDir(local)
						for _, e := range ents {
							if strings.HasSuffix(e.Name(), ".count") {
								os.Remove(filepath.Join(local, e.Name()))
							}
						}
					}},
					&vos.Foreign{Name: "remove-local-dir", Do: func() { os.RemoveAll(local) }})
				return menu
			}
			f := w.newProc()
			ca, cn, cb := w.newCounter(f, "a"), w.newCounter(f, "new"), w.newCounter(f, zzvBig('g'))
			x.Go("host", func() {
				f.rotate1()
				w.add(ca, 1)
				w.add(cn, 2)
				w.add(cb, 4)
				w.now = w.now.AddDate(0, 0, 7)
				f.rotate1()
				w.add(ca, 8)
				w.add(cn, 16)
			})
		},
		Check: func(x *sched.Exec) ([]string, uint64) {
			r := x.Scratch.(*zzvC05Run)
			w := r.w
			v := zzvThreadFailures(x)
			per, errs := w.persistedLenient()
			_ = errs
			pend := w.pending()
			for _, o := range r.others {
				if got, ok := per[o]; ok && got != r.rest[o] {
					v = append(v, fmt.Sprintf("value of untouched counter %q changed from %d to %d", o, r.rest[o], got))
				}
			}
			for name, b := range w.begun {
				if per[name]+pend[name] > r.rest[name]+b {
					v = append(v, fmt.Sprintf("over-count of %q: persisted %d + pending %d > at rest %d + increments %d", zzvShort(name), per[name], pend[name], r.rest[name], b))
				}
			}
			f := w.procs[0]
			outcome := zzvHash(per["a"], per["new"], pend["a"], pend["new"], f.err != nil, f.current.Load() != nil)
			return v, outcome
		},
		Teardown: func(x *sched.Exec) {
			vos.Faults, vos.FaultMenu = false, nil
			x.Scratch.(*zzvC05Run).w.teardown()
		},
	}
}

// persistedLenient sums the values of every readable file, ignoring files
// the strict decoder rejects (faults may legitimately leave a short or
// header-only file behind).
func (w *zzvWorld) persistedLenient() (map[string]uint64, []string) {
	sum := map[string]uint64{}
	var errs []string
	ents, _ := os.ReadDir(telemetry.Default.LocalDir())
	for _, e := range ents {
		if !strings.HasSuffix(e.Name(), ".count") {
			continue
		}
		data := zzvReadCapped(filepath.Join(telemetry.Default.LocalDir(), e.Name()))
		if len(data) < ref.CFPage {
			continue
		}
		cf, err := ref.DecodeCounterFile(data)
		if err != nil {
			errs = append(errs, err.Error())
			continue
		}
		for n, v := range cf.Values {
			sum[n] += v
		}
	}
	return sum, errs
}

func zzvSigC05(f sched.Found, msg string) string {
	switch {
	case strings.HasPrefix(msg, "panic"):
		if i := strings.LastIndex(msg, "@ "); i >= 0 {
			return "panic@" + msg[i+2:]
		}
		return "panic"
	case strings.HasPrefix(msg, "use-after-unmap"):
		return zzvSigBase(msg)
	case strings.HasPrefix(msg, "step horizon"), strings.HasPrefix(msg, "deadlock"):
		return "no-return"
	case strings.HasPrefix(msg, "value of untouched"):
		return "other-counter-changed"
	case strings.HasPrefix(msg, "over-count"):
		return "over-count"
	}
	return "other"
}

// --- corrupt at rest --------------------------------------------------------

type zzvRestOut struct {
	panicked string
	noReturn bool
	size0    int64 // size of the counter file at rest (after sparse growth by the case, if any)
	size     int64 // size after the process used it
}

// zzvUseDamaged writes data as the process's counter file, opens it with the
// real library and increments three counters under a step budget.
func zzvUseDamaged(base string, data []byte, names []string) (out zzvRestOut, after []byte, pend map[string]uint64) {
	w := zzvNewWorld(base, "")
	defer w.teardown()
	vos.Poison = false
	// Learn the file name by opening once on a scratch copy of the directory state.
	f0 := &file{buildInfo: zzvBuildInfo()}
	f0.rotate1()
	path := f0.current.Load().f.Name()
	f0.current.Load().close()
	if err := os.WriteFile(path, data, 0o666); err != nil {
		panic(err)
	}
	if zzvRestAfterWrite != nil {
		zzvRestAfterWrite(path)
	}
	if fi, err := os.Stat(path); err == nil {
		out.size0 = fi.Size()
	}
	f := w.newProc()
	var cs []*Counter
	for _, n := range names {
		cs = append(cs, w.newCounter(f, n))
	}
	func() {
		vatomic.Budget = 400000
		defer func() {
			vatomic.Budget = 0
			if r := recover(); r != nil {
				if _, ok := r.(vatomic.BudgetExceeded); ok {
					out.noReturn = true
					return
				}
				out.panicked = fmt.Sprintf("%v @ %s", r, zzvPanicSite(string(debug.Stack())))
			}
		}()
		debug.SetPanicOnFault(true)
		f.rotate1()
		for i, c := range cs {
			c.Add(int64(1 << i))
		}
		// Another writer grows the file (new pages), then the process creates one more counter in
		// the bucket the damage may sit in: the remap path runs on a damaged file.
		if f.current.Load() != nil {
			other := &file{buildInfo: zzvBuildInfo()}
			other.rotate1()
			if other.current.Load() != nil {
				for i := 0; i < 5; i++ {
					other.lookup(fmt.Sprintf("grow%d/%s", i, strings.Repeat("g", 4000)))
				}
				if m := other.current.Load(); m != nil {
					m.close()
				}
			}
			late := w.newCounter(f, zzvCollideN(7)[6])
			late.Add(64)
			cs[0].Add(128)
		}
	}()
	if out.noReturn || out.panicked != "" {
		// The process state may hold locks; do not touch it further.
		w.procs = nil
	}
	if fi, err := os.Stat(path); err == nil {
		out.size = fi.Size()
	}
	after = zzvReadCapped(path)
	pend = map[string]uint64{}
	for _, c := range cs {
		pend[c.name] += zzvExtra(c)
	}
	return out, after, pend
}

// zzvRestAfterWrite, if set, edits the counter file at rest after its image was written (sparse growth).
var zzvRestAfterWrite func(path string)

func zzvValueSets(data []byte) map[string]map[uint64]bool { return zzvLenient(data) }

func TestVerifC05(t *testing.T) {
	p := vrep.Env()
	res := vrep.New("C05", p)
	defer res.Guard()
	base, cleanup := vrep.Scratch("c05")
	defer cleanup()
	res.Rule = "(1) every single (quick) / pair (thorough) of non-default answers of the file-system and mmap calls made by open/Add/growth/rotation, enumerated by DFS over fault choice points; (2) every single (and for three bases every pair) 32-bit field overwrite of valid files at rest, then used by the real process under a step budget; (3) a menu of initial directory states. Classes: distinct end states (fault leg), oracle classes (damage leg); oracles on every damaged file: no panic / fault / budget overrun, no descriptor or mapping left (/proc/self/fd, /proc/self/maps), untouched counters neither changed nor lost; plus chains of 64..1100 records of one bucket closed into a cycle, multi-page files cut to 7 lengths and a file grown sparsely beyond 4 GiB"
	res.Assumptions = []string{"faults are injected at the os / mmap call boundary of internal/counter and internal/telemetry", "truncation of a mapped file by a foreign program is outside the property"}
	if p.Replay != "" {
		zzvReplay(p.Replay, func(name string) *sched.Scenario { return zzvC05FaultScenario(base) })
		return
	}

	// (1) fault mode.
	fb := []sched.Bounds{{}, {Fault: 1}, {Fault: 2}}
	if p.Thorough() {
		fb = append(fb, sched.Bounds{Fault: 3})
	}
	for _, b := range fb {
		ex := &sched.Explorer{Sc: zzvC05FaultScenario(base), Bounds: b, Deadline: p.Deadline, Shard: p.Shard, NShards: p.NShards}
		st := ex.Explore()
		zzvRecord(res, st, zzvSigC05)
	}

	// (2) corrupt at rest.
	k1, k2 := zzvCollide()
	var k3 string // a third name in the same bucket
	for i := 0; ; i++ {
		n := fmt.Sprintf("m%d", i)
		if ref.FNV(n) == ref.FNV(k1) {
			k3 = n
			break
		}
	}
	bases := map[string][]string{"one": {k1}, "two-collide": {k1, k2}, "two-apart": {k1, "b"}, "three": {k1, k2, "b"}, "five-collide": zzvCollideN(5)}
	var bnames []string
	for n := range bases {
		bnames = append(bnames, n)
	}
	sort.Strings(bnames)
	idx := 0
	// existing, colliding-new, non-colliding-new, and a new name long enough for its record to reach
	// across the gap that alignment leaves in front of the first record
	// ... and, first of all, a new name of stack-counter size (a damaged limit that wraps around 2^32 in the
	// placement arithmetic ends up lowered to the size of the first record placed)
	// (its record, placed at offset 0 by such a wrap, would end 32 bytes into the record area)
	w0 := ref.NewCFWriter(zzvC10Meta())
	firstRec := (w0.HdrLen + 4 + 4*ref.CFBuckets + 31) / 32 * 32
	use := []string{("bigfirst/" + strings.Repeat("B", 4096))[:firstRec+32-16], k1, k3, "fresh", "fresh/" + strings.Repeat("n", 42)}
	useDefault := use
	var baseNames map[string]bool // the counters really stored in the undamaged base file
	checkRest := func(desc string, data []byte) {
		idx++
		if !p.Mine(idx) {
			return
		}
		res.Evaluations++
		res.Transitions++
		before := zzvValueSets(data)
		fds0, maps0 := zzvOpenFDs(), zzvFileMaps(base)
		out, after, pend := zzvUseDamaged(base, data, use)
		if maps := zzvFileMaps(base); maps > maps0 && !out.noReturn && out.panicked == "" {
			res.Violate("mapping-leak", fmt.Sprintf("%d memory mappings of the counter file are left after the process closed it (damaged file: %s)", maps-maps0, desc), map[string]any{"case": desc})
		}
		if fds := zzvOpenFDs(); fds > fds0 && !out.noReturn && out.panicked == "" {
			res.Violate("descriptor-leak", fmt.Sprintf("%d file descriptors are left open after the process closed its counter file (damaged file: %s)", fds-fds0, desc), map[string]any{"case": desc})
		}
		class := "returned"
		switch {
		case out.noReturn:
			class = "no-return"
			res.Violate("damaged-file-no-return", "open/Add does not return within the step budget on a damaged file: "+desc, map[string]any{"case": desc})
		case out.panicked != "":
			class = "panic"
			res.Violate("damaged-file-panic@"+out.panicked[strings.LastIndex(out.panicked, "@ ")+2:], "open/Add panics ("+out.panicked+") on a damaged file: "+desc, map[string]any{"case": desc})
		default:
			// The process and the other writer add a handful of records (five of 4 KiB among them): the file
			// may grow by a few pages, not by orders of magnitude (a damaged limit must not be believed).
			if out.size > out.size0+16*16384 && out.size > 32*16384 {
				res.Violate("file-blown-up:"+zzvDamagedField(desc), fmt.Sprintf("the counter file grew from %d to %d bytes: %s", out.size0, out.size, desc), map[string]any{"case": desc})
			}
			afterSets := zzvValueSets(after)
			// a counter the process created itself holds at most what the process added (the area beyond
			// the limit may contain anything at rest)
			for _, u := range use {
				if _, existed := before[u]; existed || baseNames[u] {
					continue // (a base counter whose chain the damage has cut is not a new counter)
				}
				for v := range afterSets[u] {
					if v > uint64(1)<<len(use)+64+128 {
						res.Violate("new-counter-overcounted:"+zzvDamagedField(desc), fmt.Sprintf("new counter %q reads %d after the process added at most %d: %s", zzvShort(u), v, uint64(1)<<len(use)+64+128, desc), map[string]any{"case": desc})
					}
				}
			}
			for n, vs := range before {
				isUsed := false
				for _, u := range use {
					if u == n {
						isUsed = true
					}
				}
				if isUsed {
					continue
				}
				for v := range afterSets[n] {
					if !vs[v] {
						class = "other-changed"
						res.Violate("other-counter-changed:"+zzvDamagedField(desc), fmt.Sprintf("value of untouched counter %q changed (now %d) after using a damaged file: %s", zzvShort(n), v, desc), map[string]any{"case": desc})
					}
				}
				if len(afterSets[n]) == 0 && len(vs) > 0 && baseNames[n] && len(after) < 1<<20 {
					class = "other-lost"
					res.Violate("other-counter-lost:"+zzvDamagedField(desc), fmt.Sprintf("untouched counter %q, readable in the damaged file at rest, is gone after the process used the file: %s", zzvShort(n), desc), map[string]any{"case": desc})
				}
			}
			tot := uint64(0)
			for _, v := range pend {
				tot += v
			}
			if tot > uint64(1)<<len(use)-1+64+128 {
				res.Violate("over-count", fmt.Sprintf("pending %d exceeds the increments made: %s", tot, desc), map[string]any{"case": desc})
			}
			if tot > 0 {
				class = "returned/pending"
			}
		}
		res.Class("rest/" + class)
		if res.Evaluations%3000 == 1 {
			res.Sample(8, map[string]any{"leg": "damage-at-rest", "case": desc, "class": class})
		}
	}
	for _, bn := range bnames {
		names := bases[bn]
		w := ref.NewCFWriter(zzvC10Meta())
		var offs []uint32
		baseNames = map[string]bool{}
		for i, n := range names {
			offs = append(offs, w.Add(n, uint64(10+i)))
			baseNames[n] = true
		}
		zzvC05TableEnd = w.HdrLen + 4 + 4*ref.CFBuckets
		zzvC05TrueLimit = binary.LittleEndian.Uint32(w.Data[w.HdrLen:])
		checkRest("R:"+bn+" undamaged", w.Bytes())
		{
			// every word intact, but the unallocated area beyond the limit is not zero
			d := w.Bytes()
			lim := binary.LittleEndian.Uint32(d[w.HdrLen:])
			for off := lim; int(off)+8 <= len(d) && off < lim+4096; off += 32 {
				binary.LittleEndian.PutUint64(d[off:], 1000000)
			}
			checkRest("R:"+bn+" free-area-dirty", d)
		}
		fields := zzvFields(w, offs, names)
		vals := zzvDamageValues(w, offs)
		for _, f := range fields {
			for _, v := range vals {
				d := w.Bytes()
				binary.LittleEndian.PutUint32(d[f.off:], v)
				checkRest(fmt.Sprintf("R:%s %s=%#x", bn, f.name, v), d)
			}
		}
		if !(p.Thorough() || bn == "two-collide") {
			continue
		}
		for i, f := range fields {
			if f.name == "hdrlen" {
				continue // a damaged header length makes the open fail cleanly (covered by the singles)
			}
			for _, g := range fields[i+1:] {
				for _, v := range vals {
					for _, u := range vals {
						d := w.Bytes()
						binary.LittleEndian.PutUint32(d[f.off:], v)
						binary.LittleEndian.PutUint32(d[g.off:], u)
						checkRest(fmt.Sprintf("R2:%s %s=%#x %s=%#x", bn, f.name, v, g.name, u), d)
					}
				}
			}
			if p.Expired() {
				res.Exhaustive = false
				break
			}
		}
	}
	// Long chains closed into a cycle: n records of one bucket, the last record of the chain pointing back to
	// its head (cycle lengths around the number of buckets and well beyond it); looking up a name of that
	// bucket that is not stored has to end.
	{
		long := zzvCollideN(1102)
		long = append(append([]string{}, long[:6]...), long[7:]...) // (the 7th name is the one the process creates late)
		for _, n := range []int{64, 511, 512, 513, 700, 1100} {
			w := ref.NewCFWriter(zzvC10Meta())
			var offs []uint32
			baseNames = map[string]bool{}
			for i, name := range long[:n] {
				offs = append(offs, w.Add(name, uint64(10+i)))
				baseNames[name] = true
			}
			zzvC05TableEnd = w.HdrLen + 4 + 4*ref.CFBuckets
			zzvC05TrueLimit = binary.LittleEndian.Uint32(w.Data[w.HdrLen:])
			use = []string{long[0], long[n-1], long[1100], "fresh"} // the chain's tail, its head, a new name of the bucket, another bucket
			checkRest(fmt.Sprintf("R:long-chain-%d undamaged", n), w.Bytes())
			d := w.Bytes()
			binary.LittleEndian.PutUint32(d[offs[0]+12:], offs[n-1])
			checkRest(fmt.Sprintf("R:long-chain-%d rec0.next=head (cycle of %d)", n, n), d)
			d = w.Bytes()
			binary.LittleEndian.PutUint32(d[offs[0]+12:], offs[n/2])
			checkRest(fmt.Sprintf("R:long-chain-%d rec0.next=middle (cycle of %d)", n, n/2+1), d)
		}
		use = useDefault
	}
	// Files of odd sizes / wrong prefix / wrong metadata.
	baseNames = map[string]bool{k1: true}
	good := ref.NewCFWriter(zzvC10Meta())
	good.Add(k1, 3)
	for _, sz := range []int{0, 1, 16383, 16384, 16385, 32768} {
		for _, variant := range []string{"ok", "badprefix", "othermeta"} {
			d := good.Bytes()
			switch variant {
			case "badprefix":
				copy(d, "# telemetry/counter file v2\n")
			case "othermeta":
				w2 := ref.NewCFWriter(strings.Replace(zzvC10Meta(), "v1.0.0", "v9.9.9", 1))
				w2.Add(k1, 3)
				d = w2.Bytes()
			}
			if sz < len(d) {
				d = d[:sz]
			} else {
				d = append(d, make([]byte, sz-len(d))...)
			}
			checkRest(fmt.Sprintf("R3:size=%d %s", sz, variant), d)
		}
	}

	// A file of several pages cut short at rest, to page multiples and to odd lengths, so that records the
	// header still announces (limit) lie beyond the end: the remap path runs on every use.
	{
		long := ref.NewCFWriter(zzvC10Meta())
		baseNames = map[string]bool{}
		var lnames []string
		for i := 0; i < 9; i++ {
			n := fmt.Sprintf("long%d/%s", i, strings.Repeat("l", 3990))
			lnames = append(lnames, n)
			long.Add(n, uint64(20+i))
		}
		full := long.Bytes()
		for _, sz := range []int{16384, 16384 + 30, 5*4096 + 30, 24576, 32768 - 1, len(full) - 4096, len(full) - 1} {
			if sz >= len(full) {
				continue
			}
			use = []string{lnames[0], lnames[8], "fresh"} // a record that survives, one beyond the cut, a new one
			checkRest(fmt.Sprintf("R4:truncated-to=%d of %d", sz, len(full)), full[:sz])
		}
		use = useDefault
	}

	// A counter file grown (sparsely) beyond 4 GiB at rest, with a bucket head and a record just below 2^32:
	// 32-bit offset arithmetic must not wrap.
	{
		w := ref.NewCFWriter(zzvC10Meta())
		baseNames = map[string]bool{k1: true}
		w.Add(k1, 3)
		d := w.Bytes()
		const recOff = 0xFFFFFFE0
		binary.LittleEndian.PutUint32(d[w.HdrLen+4+4*ref.FNV("fresh"):], recOff)
		sparseOK := true
		zzvRestAfterWrite = func(path string) {
			fh, err := os.OpenFile(path, os.O_RDWR, 0)
			if err != nil {
				sparseOK = false
				return
			}
			defer fh.Close()
			if err := fh.Truncate(1<<32 + 65536); err != nil {
				sparseOK = false
				return
			}
			var rec [16]byte
			binary.LittleEndian.PutUint32(rec[8:], 32|0xff000000)
			if _, err := fh.WriteAt(rec[:], recOff); err != nil {
				sparseOK = false
			}
		}
		checkRest("R5:file grown sparsely to 4 GiB + 64 KiB, head of the bucket of \"fresh\" = 0xffffffe0, record there with a 32-byte name", d)
		zzvRestAfterWrite = nil
		if !sparseOK {
			res.Note("R5: the scratch file system refused a sparse 4 GiB file; case skipped")
		}
	}

	// (3) initial directory states.
	if p.Mine(0) {
		zzvC05DirStates(res, base)
	}
	res.Write()
}

func zzvC05DirStates(res *vrep.Result, base string) {
	type st struct {
		name  string
		setup func(dir string)
	}
	states := []st{
		{"dir-absent", func(d string) { os.RemoveAll(d) }},
		{"dir-is-file", func(d string) { os.RemoveAll(d); os.WriteFile(d, []byte("x"), 0o666) }},
		{"dir-empty", func(d string) { os.RemoveAll(d); os.MkdirAll(d, 0o777) }},
		{"local-is-file", func(d string) { os.RemoveAll(d + "/local"); os.WriteFile(d+"/local", []byte("x"), 0o666) }},
		{"weekends-absent", func(d string) { os.Remove(d + "/local/weekends") }},
		{"weekends-empty", func(d string) { os.WriteFile(d+"/local/weekends", nil, 0o666) }},
		{"weekends-newline", func(d string) { os.WriteFile(d+"/local/weekends", []byte("\n"), 0o666) }},
		{"weekends-blanks", func(d string) { os.WriteFile(d+"/local/weekends", []byte(" \t \n"), 0o666) }},
		{"weekends-nul", func(d string) { os.WriteFile(d+"/local/weekends", []byte("\x00"), 0o666) }},
		{"weekends-minus", func(d string) { os.WriteFile(d+"/local/weekends", []byte("-"), 0o666) }},
		{"weekends-9", func(d string) { os.WriteFile(d+"/local/weekends", []byte("9\n"), 0o666) }},
		{"weekends-x", func(d string) { os.WriteFile(d+"/local/weekends", []byte("x"), 0o666) }},
		{"weekends-dir", func(d string) { os.Remove(d + "/local/weekends"); os.MkdirAll(d+"/local/weekends", 0o777) }},
		{"mode-off", func(d string) { os.WriteFile(d+"/mode", []byte("off 2024-01-01"), 0o666) }},
		{"mode-garbage", func(d string) { os.WriteFile(d+"/mode", []byte("\xff\xfe\x00"), 0o666) }},
		{"mode-dir", func(d string) { os.MkdirAll(d+"/mode", 0o777) }},
		{"local-readonly", func(d string) { os.Chmod(d+"/local", 0o555) }},
	}
	for _, s := range states {
		w := zzvNewWorld(base, "")
		s.setup(w.dir)
		f := w.newProc()
		c1, c2 := w.newCounter(f, "a"), w.newCounter(f, zzvBig('z'))
		var out zzvRestOut
		func() {
			vatomic.Budget = 400000
			defer func() {
				vatomic.Budget = 0
				if r := recover(); r != nil {
					if _, ok := r.(vatomic.BudgetExceeded); ok {
						out.noReturn = true
						return
					}
					out.panicked = fmt.Sprintf("%v @ %s", r, zzvPanicSite(string(debug.Stack())))
				}
			}()
			c1.Add(1)
			f.rotate1()
			c1.Add(2)
			c2.Add(4)
			w.now = w.now.AddDate(0, 0, 7)
			f.rotate1()
			c1.Add(8)
		}()
		res.Evaluations++
		res.Transitions++
		switch {
		case out.noReturn:
			res.Violate("dirstate-no-return", "open/Add does not return with initial state "+s.name, map[string]any{"state": s.name})
		case out.panicked != "":
			res.Violate("dirstate-panic", "open/Add panics ("+out.panicked+") with initial state "+s.name, map[string]any{"state": s.name})
		default:
			per, _ := w.persistedLenient()
			pend := w.pending()
			if per["a"]+pend["a"] > 11 {
				res.Violate("over-count", fmt.Sprintf("initial state %s: persisted %d + pending %d > 11", s.name, per["a"], pend["a"]), map[string]any{"state": s.name})
			}
			res.Class(fmt.Sprintf("dirstate/%s/open=%v", s.name, f.current.Load() != nil))
		}
		os.Chmod(w.dir+"/local", 0o777)
		w.teardown()
	}
}

// zzvReadCapped reads at most the first 1 MiB of a file (a damaged limit can
// make the library extend a file to gigabytes of sparse zeros).
func zzvReadCapped(path string) []byte {
	f, err := os.Open(path)
	if err != nil {
		return nil
	}
	defer f.Close()
	buf := make([]byte, 1<<20)
	n, _ := f.ReadAt(buf, 0)
	n -= n % ref.CFPage
	return buf[:n]
}

// zzvOpenFDs counts the process's open file descriptors.
// zzvFileMaps counts the memory mappings of files below dir that this process holds (a mapping of a
// file that has been removed since is listed with its old path).
func zzvFileMaps(dir string) int {
	data, err := os.ReadFile("/proc/self/maps")
	if err != nil {
		return 0
	}
	return strings.Count(string(data), dir+"/")
}

func zzvOpenFDs() int {
	ents, err := os.ReadDir("/proc/self/fd")
	if err != nil {
		return 0
	}
	return len(ents)
}

// zzvDamagedField names the damaged fields of a case ("R2:two-collide limit=0x.. rec0.next=0x..").
func zzvDamagedField(desc string) string {
	if strings.Contains(desc, "free-area-dirty") {
		return "free-area-dirty"
	}
	var fields []string
	for _, tok := range strings.Fields(desc) {
		if i := strings.Index(tok, "="); i > 0 {
			f := tok[:i]
			if j := strings.Index(f, "["); j >= 0 {
				f = f[:j]
			}
			f = strings.TrimRight(f, "0123456789") // rec0.next -> rec0.next stays; rec0 -> rec
			fields = append(fields, f)
		}
	}
	sort.Strings(fields)
	for _, f := range fields {
		if f == "limit" {
			// Whatever else is damaged too: the allocation limit cannot be trusted. Where the damaged
			// value points decides what the library can still know.
			region := "unknown"
			for _, tok := range strings.Fields(desc) {
				if strings.HasPrefix(tok, "limit=") {
					var v uint64
					fmt.Sscanf(strings.TrimPrefix(tok, "limit="), "%v", &v)
					switch {
					case v == 0:
						region = "zero"
					case v < uint64(zzvC05TableEnd):
						region = "below-table-end"
					case v < uint64(zzvC05TrueLimit):
						region = "inside-records"
					default:
						region = "at-or-beyond-records"
					}
				}
			}
			return "limit-damaged(" + region + ")"
		}
	}
	return strings.Join(fields, "+")
}

// zzvC05TableEnd / zzvC05TrueLimit describe the undamaged base file of the case at hand.
var zzvC05TableEnd, zzvC05TrueLimit uint32
