//go:build verif

package counter

// C03 — concurrent increments are counted exactly once and never crash.
// Engine E1: every interleaving (up to a preemption bound) of goroutines
// calling the real Counter.Add with the real first open, growth and
// rotation, at the granularity of the atomic operations and lock
// acquisitions of the rewritten package.

import (
	"fmt"
	"hash/fnv"
	"os"
	"path/filepath"
	"sort"
	"strings"
	"testing"
	"unsafe"

	"golang.org/x/telemetry/internal/telemetry"

	"golang.org/x/telemetry/internal/verifshim/sched"
	"golang.org/x/telemetry/internal/verifshim/vos"
	"golang.org/x/telemetry/internal/verifshim/vrep"
)

type zzvOp struct {
	kind string // add | open | rotate
	ctr  int
	n    uint64
}

type zzvScn struct {
	name     string
	ctrNames []string
	preOpen  bool
	pre      []zzvOp // executed in set-up, unscheduled
	fill     int     // 4000-byte filler records written in set-up
	threads  [][]zzvOp
	saturat  bool
	presetTo uint64 // if non-zero: cell of counter 0 is pre-set to this value in set-up
	useDefault bool // the process is the package's default file, opened through Open()
	stack      bool // the scenario increments a StackCounter
	thorough bool   // only in the thorough tier
	deep     bool   // small enough for preemption bound 4 in the thorough tier
}

const zzvBigLen = 4096

func zzvBig(ch byte) string { return strings.Repeat(string(ch), zzvBigLen) }

func zzvC03Scenarios() []zzvScn {
	A := func(c int, n uint64) zzvOp { return zzvOp{"add", c, n} }
	open := zzvOp{kind: "open"}
	rot := zzvOp{kind: "rotate"}
	return []zzvScn{
		{name: "S1-add-add-firstopen", ctrNames: []string{"a"}, threads: [][]zzvOp{{A(0, 1)}, {A(0, 2)}, {open}}},
		{name: "S2-twovalues-samename-open", ctrNames: []string{"a", "a"}, threads: [][]zzvOp{{A(0, 1)}, {A(1, 2)}, {open}}},
		{deep: true, name: "S3-add-add-rotate", ctrNames: []string{"a"}, preOpen: true, pre: []zzvOp{A(0, 4)}, threads: [][]zzvOp{{A(0, 1), A(0, 2)}, {rot}}},
		{name: "S3b-add-add-rotate-3thr", ctrNames: []string{"a"}, preOpen: true, pre: []zzvOp{A(0, 4)}, threads: [][]zzvOp{{A(0, 1)}, {A(0, 2)}, {rot}}},
		{deep: true, name: "S4-add-vs-growth", ctrNames: []string{"a", zzvBig('b')}, preOpen: true, pre: []zzvOp{A(0, 4)}, fill: 3, threads: [][]zzvOp{{A(0, 1)}, {A(1, 2)}}},
		{name: "S4b-add-add-vs-growth", ctrNames: []string{"a", zzvBig('b')}, preOpen: true, pre: []zzvOp{A(0, 4)}, fill: 3, threads: [][]zzvOp{{A(0, 1)}, {A(0, 8)}, {A(1, 2)}}, thorough: true},
		{name: "S5-three-first-adds-open", ctrNames: []string{"a", "b", "c"}, threads: [][]zzvOp{{A(0, 1)}, {A(1, 2)}, {A(2, 4)}, {open}}, thorough: true},
		{name: "S5q-two-first-adds-open", ctrNames: []string{"a", "b"}, threads: [][]zzvOp{{A(0, 1)}, {A(1, 2)}, {open}}},
		{name: "S6-two-readers-rotate", ctrNames: []string{"a"}, preOpen: true, pre: []zzvOp{A(0, 4)}, threads: [][]zzvOp{{A(0, 1)}, {A(0, 2)}, {rot}}, thorough: true},
		{deep: true, name: "S7-adds-two-rotations", ctrNames: []string{"a"}, preOpen: true, pre: []zzvOp{A(0, 4)}, threads: [][]zzvOp{{A(0, 1), A(0, 2)}, {rot, rot}}},
		{name: "S8a-saturate-extra", ctrNames: []string{"a"}, saturat: true, threads: [][]zzvOp{{A(0, 1<<33-2)}, {A(0, 1<<33-1)}, {A(0, 1<<62), open}}},
		{deep: true, name: "S8b-saturate-cell", ctrNames: []string{"a"}, saturat: true, preOpen: true, pre: []zzvOp{A(0, 1)}, presetTo: ^uint64(0) - 2, threads: [][]zzvOp{{A(0, 1)}, {A(0, 2)}, {A(0, 1<<62)}}},
		{deep: true, name: "S9-three-adds-mapped", ctrNames: []string{"a"}, preOpen: true, pre: []zzvOp{A(0, 4)}, threads: [][]zzvOp{{A(0, 1)}, {A(0, 2)}, {A(0, 8)}}},
		{deep: true, name: "S10-open-fails-adds", ctrNames: []string{"a"}, threads: [][]zzvOp{{A(0, 1)}, {A(0, 2)}, {zzvOp{kind: "openfail"}}}},
		{name: "S12-two-Open-calls-and-add", ctrNames: []string{"a"}, useDefault: true, threads: [][]zzvOp{{A(0, 1)}, {zzvOp{kind: "openapi"}}, {zzvOp{kind: "openapi"}, A(0, 2)}}},
		{name: "S13-stackcounter-inc-inc-open", ctrNames: []string{}, useDefault: true, stack: true, threads: [][]zzvOp{{zzvOp{kind: "stackinc"}}, {zzvOp{kind: "stackinc"}}, {zzvOp{kind: "openapi"}}}},
		// two goroutines use a counter for the first time at once (both in register), one of them then grows the file and adds again
		{deep: true, name: "S14-first-use-twice-then-growth", ctrNames: []string{"a", zzvBig('b')}, preOpen: true, fill: 3, threads: [][]zzvOp{{A(0, 8)}, {A(0, 1), A(1, 2), A(0, 4)}}},
		{name: "S11-add-open-then-rotate", ctrNames: []string{"a", "b"}, threads: [][]zzvOp{{A(0, 1), A(1, 2)}, {open, rot}}},
	}
}

type zzvC03Run struct {
	w   *zzvWorld
	scn *zzvScn
}

func zzvC03Scenario(base string, scn *zzvScn) *sched.Scenario {
	return &sched.Scenario{
		Name:     scn.name,
		MaxSteps: 3000,
		Setup: func(x *sched.Exec) {
			vos.Points, vos.Faults = false, false
			w := zzvNewWorld(base, "")
			w.saturat = scn.saturat
			var f *file
			var sc *StackCounter
			if scn.useDefault {
				ZZVResetOpen()
				defaultFile.buildInfo = zzvBuildInfo()
				defaultFile.counters.Store(nil)
				f = &defaultFile
				w.procs = append(w.procs, f)
				if scn.stack {
					sc = NewStack("stk", 4)
				}
			} else {
				f = w.newProc()
			}
			var cs []*Counter
			for _, n := range scn.ctrNames {
				cs = append(cs, w.newCounter(f, n))
			}
			if scn.preOpen {
				f.rotate1()
				if f.current.Load() == nil {
					panic(fmt.Sprintf("set-up: open failed: %v", f.err))
				}
				for i := 0; i < scn.fill; i++ {
					name := fmt.Sprintf("filler%d/%s", i, strings.Repeat("f", 4000-8))
					if f.lookup(name).count == nil {
						panic("set-up: filler failed")
					}
				}
			}
			for _, op := range scn.pre {
				w.add(cs[op.ctr], op.n)
			}
			if scn.presetTo != 0 {
				p := f.lookup(scn.ctrNames[0])
				p.count.Store(scn.presetTo)
				w.begun[scn.ctrNames[0]] = scn.presetTo
			}
			x.Scratch = &zzvC03Run{w: w, scn: scn}
			for ti, ops := range scn.threads {
				ops := ops
				x.Go(fmt.Sprintf("t%d", ti), func() {
					for _, op := range ops {
						switch op.kind {
						case "add":
							w.add(cs[op.ctr], op.n)
						case "open":
							f.rotate1()
						case "rotate":
							w.now = w.now.AddDate(0, 0, 7)
							f.rotate1()
						case "openapi":
							Open(false)
						case "stackinc":
							zzvStackInc(w, sc)
						case "openfail":
							// the local directory is replaced by a file: MkdirAll / open fail
							os.RemoveAll(w.dir + "/local")
							os.WriteFile(w.dir+"/local", []byte("x"), 0o666)
							f.rotate1()
						}
					}
				})
			}
			x.OnStep = func(x *sched.Exec) { w.stepOracle(x.LastKind) }
			// Cheap key for counting distinct states (state words and pointers); the complete key
			// zzvC03StateKey (with file bytes) is only needed for pruning, which no tier uses.
			x.StateKey = func() uint64 {
				h := uint64(0)
				for _, c := range w.ctrs {
					h = h*1099511628211 ^ uint64(c.state.load())
					if c.ptr.count != nil {
						h ^= 0x9e3779b97f4a7c15
					}
				}
				return h
			}
		},
		Check: func(x *sched.Exec) ([]string, uint64) {
			r := x.Scratch.(*zzvC03Run)
			w := r.w
			v := zzvThreadFailures(x)
			v = append(v, w.stepErr...)
			per, errs := w.persisted()
			v = append(v, errs...)
			pend := w.pending()
			f := w.procs[0]
			open := f.current.Load() != nil
			clean := len(v) == 0 // no panic/deadlock/step-oracle failure (use-after-unmap is recorded separately by the shim)
			desc := func(name string) string {
				d := ""
				for _, c := range w.ctrs {
					if c.name == name {
						s := c.state.load()
						d += fmt.Sprintf("[havePtr=%v ptrNil=%v locked=%v readers=%v extra=%v registered=%v]", s.havePtr(), c.ptr.count == nil, s.locked(), s.readers() != 0, s.extra() != 0, c.next.Load() != nil)
					}
				}
				return d
			}
			for _, name := range zzvSortedKeys(w.begun) {
				b := w.begun[name]
				if scn.saturat {
					if per[name] < scn.presetTo {
						v = append(v, fmt.Sprintf("saturation: persisted value wrapped (%d < preset %d)", per[name], scn.presetTo))
					}
					// Values stick at the limits instead of wrapping: whatever the interleaving, what is
					// recorded in the end cannot be less than the smaller of the amount begun and the
					// lowest limit (2^33-1 pending); the sum is computed without wrapping.
					floor := b
					if floor > 1<<33-1 {
						floor = 1<<33 - 1
					}
					total := per[name] + pend[name]
					if total < per[name] {
						total = ^uint64(0)
					}
					if clean && total < floor {
						v = append(v, fmt.Sprintf("saturation: recorded %d (persisted %d + pending %d) although %d were begun: a value wrapped instead of sticking %s", total, per[name], pend[name], b, desc(name)))
					}
					continue
				}
				if clean && per[name]+pend[name] != b {
					v = append(v, fmt.Sprintf("final sum mismatch: persisted %d + pending %d != increments %d %s", per[name], pend[name], b, desc(name)))
				}
				if clean && open && pend[name] != 0 {
					v = append(v, fmt.Sprintf("pending %d left although a counter file is open and all calls returned %s", pend[name], desc(name)))
				}
			}
			if clean && !scn.saturat {
				for _, c := range w.ctrs {
					s := c.state.load()
					if s.readers() != 0 {
						v = append(v, fmt.Sprintf("state word left with readers=%#x after all calls returned %s", s.readers(), desc(c.name)))
					}
				}
			}
			out := zzvHash(per["a"], pend["a"], per["b"], pend["b"], open, len(v))
			return v, out
		},
		Teardown: func(x *sched.Exec) {
			x.Scratch.(*zzvC03Run).w.teardown()
			if scn.useDefault {
				ZZVResetOpen()
				defaultFile.counters.Store(nil)
			}
		},
	}
}

// zzvFamily is the scenario family: "S3b-add-add-rotate-3thr" -> "S3".
func zzvFamily(scn string) string {
	if i := strings.Index(scn, "-"); i >= 0 {
		scn = scn[:i]
	}
	return strings.TrimRight(scn, "abcdefghijklmnopqrstuvwxyz")
}

// zzvSigC03 maps a violation message to its stable class: the oracle
// clause, the scenario family, the state descriptor of the counter, and
// whether the same execution had already accessed unmapped memory.
func zzvSigC03(f sched.Found, msg string) string {
	if strings.HasPrefix(msg, "use-after-unmap") {
		return zzvSigBase(msg)
	}
	sig := zzvSigBase(msg) + ":" + zzvFamily(f.Scenario)
	if i := strings.Index(msg, "["); i >= 0 {
		sig += ":" + msg[i:]
	}
	for _, m := range f.Messages {
		if strings.HasPrefix(m, "use-after-unmap") {
			return "after-stale-access:" + sig
		}
	}
	return sig
}

func zzvSigBase(msg string) string {
	switch {
	case strings.HasPrefix(msg, "use-after-unmap"):
		// "use-after-unmap: cas64 in A<B<C; mapping closed by X<Y<Z"
		acc, closer := "?", "?"
		if i := strings.Index(msg, " in "); i >= 0 {
			rest := msg[i+4:]
			if j := strings.Index(rest, ";"); j >= 0 {
				fr := strings.Split(rest[:j], "<")
				acc = fr[0]
				rest = rest[j:]
			}
			if k := strings.Index(rest, "closed by "); k >= 0 {
				fr := strings.Split(rest[k+10:], "<")
				for _, f := range fr {
					if !strings.Contains(f, "close") && !strings.Contains(f, "Once") {
						closer = f
						break
					}
				}
			}
		}
		when := "in-flight"
		if strings.Contains(msg, "began after the mapping was closed") {
			when = "call-began-after-close"
		}
		return "use-after-unmap:" + acc + ":closed-by:" + closer + ":" + when
	case strings.HasPrefix(msg, "panic"):
		if i := strings.LastIndex(msg, "@ "); i >= 0 {
			return "panic@" + msg[i+2:]
		}
		return "panic"
	case strings.HasPrefix(msg, "over-count"):
		return "over-count"
	case strings.HasPrefix(msg, "final sum mismatch"):
		return "final-sum-mismatch"
	case strings.HasPrefix(msg, "pending"):
		return "pending-left-after-open"
	case strings.HasPrefix(msg, "state word left"):
		return "state-word-not-quiescent"
	case strings.HasPrefix(msg, "deadlock"):
		return "deadlock"
	case strings.HasPrefix(msg, "step horizon"):
		return "no-return"
	case strings.HasPrefix(msg, "malformed"):
		return "file-malformed"
	case strings.Contains(msg, "decreased"):
		return "value-decreased"
	case strings.HasPrefix(msg, "saturation"):
		return "saturation-wrap"
	case strings.HasPrefix(msg, "unknown counter"):
		return "unknown-counter"
	}
	return "other"
}

func TestVerifC03(t *testing.T) {
	p := vrep.Env()
	res := vrep.New("C03", p)
	defer res.Guard()
	base, cleanup := vrep.Scratch("c03")
	defer cleanup()
	res.Rule = "E1: depth-first enumeration of all schedules of each scenario up to the stated preemption bound; a case is one complete execution; classes are distinct end states (persisted, pending, open) per scenario"
	res.Assumptions = []string{
		"sequentially consistent interleavings of the hooked atomic/lock operations (Go atomics are SC)",
		"file-system calls of a single process are not scheduling points (they happen under f.mu)",
		"plain fields (c.ptr) are race-free under the state-word protocol; checked separately by the free-running -race pass",
	}
	bounds := []int{0, 1, 2}
	if p.Thorough() {
		bounds = []int{0, 1, 2, 3, 4}
	}
	if p.Replay != "" {
		zzvReplayC03(base, p.Replay)
		return
	}
	// Bounds outermost: every scenario completes bound b before any starts b+1, so that an
	// internal deadline cuts the deepest bound only.
	stopped := map[string]bool{}
	for _, b := range bounds {
		for _, scn := range zzvC03Scenarios() {
			scn := scn
			if (scn.thorough && !p.Thorough()) || stopped[scn.name] {
				continue
			}
			if b >= 4 && !scn.deep {
				continue
			}
			sc := zzvC03Scenario(base, &scn)
			ex := &sched.Explorer{Sc: sc, Bounds: sched.Bounds{Preempt: b}, Deadline: p.Deadline, Shard: p.Shard, NShards: p.NShards}
			st := ex.Explore()
			zzvRecord(res, st, zzvSigC03)
			if !st.Exhaustive {
				stopped[scn.name] = true
			}
		}
	}
	res.Write()
}

// zzvRecord folds explorer statistics into the worker result.
func zzvRecord(res *vrep.Result, st sched.Stats, sig func(sched.Found, string) string) {
	res.Evaluations += st.Executions
	res.Transitions += st.Transitions
	res.States += int64(st.States)
	res.Validated += st.Executions
	if !st.Exhaustive {
		res.Exhaustive = false
	}
	res.Scenarios = append(res.Scenarios, vrep.ScenarioStat{Name: st.Scenario, Bound: st.Bounds.String(), Executions: st.Executions,
		Transitions: st.Transitions, States: int64(st.States), Outcomes: int64(len(st.Outcomes)), Deadlocks: st.Deadlocks, Horizons: st.Horizons, Exhaustive: st.Exhaustive})
	for o := range st.Outcomes {
		res.Classes[fmt.Sprintf("%s/%016x", st.Scenario, o)]++
	}
	if st.Bounds.Preempt+st.Bounds.Kill+st.Bounds.Fault <= 1 {
		res.Sample(6, map[string]any{"scenario": st.Scenario, "bound": st.Bounds.String(), "default_schedule": st.Sample})
	}
	for _, f := range st.Violations {
		for _, m := range f.Messages {
			res.Violate(sig(f, m), m, map[string]any{"scenario": f.Scenario, "bound": f.Bounds, "choices": f.Choices, "deviations": f.Devs, "messages": f.Messages, "steps": f.Steps})
		}
	}
}

func zzvReplayC03(base, path string) {
	zzvReplay(path, func(name string) *sched.Scenario {
		for _, s := range zzvC03Scenarios() {
			if s.name == name {
				s := s
				return zzvC03Scenario(base, &s)
			}
		}
		return nil
	})
}

// zzvC03StateKey hashes every shared location of a C03 execution: the clock, the file
// object (error, span, current mapping, registration list, mutex), every counter's state
// word and pointer (as mapping creation index + offset, nil, or dead), and the bytes of
// every counter file. Thread-local state is covered by the scheduler's per-thread
// observation histories. Used for counting states and, in the thorough tier, for pruning
// (cross-checked against unpruned runs).
func zzvC03StateKey(w *zzvWorld) uint64 {
	h := fnv.New64a()
	put := func(v ...any) { fmt.Fprint(h, v...); h.Write([]byte{0}) }
	put(w.now.UnixNano())
	idx := map[*Counter]int{}
	for i, c := range w.ctrs {
		idx[c] = i + 1
	}
	for _, f := range w.procs {
		put(f.err != nil, f.timeBegin.Unix(), f.timeEnd.Unix(), f.mu.Held())
		if m := f.current.Load(); m != nil {
			if m.mapping != nil && len(m.mapping.Data) > 0 {
				seq, _, dead, _ := vos.MapInfo(uintptr(unsafe.Pointer(&m.mapping.Data[0])))
				put("cur", seq, dead)
			} else {
				put("cur-closed")
			}
		} else {
			put("cur-nil")
		}
		for c := f.counters.Load(); c != nil && c != &f.end; c = c.next.Load() {
			put("reg", idx[c])
		}
	}
	for _, c := range w.ctrs {
		put(uint64(c.state.load()), c.next.Load() != nil)
		if c.ptr.count == nil {
			put("ptr-nil")
		} else {
			seq, off, dead, _ := vos.MapInfo(uintptr(unsafe.Pointer(c.ptr.count)))
			put("ptr", seq, off, dead)
		}
	}
	ents, _ := os.ReadDir(telemetry.Default.LocalDir())
	for _, e := range ents {
		data, _ := os.ReadFile(filepath.Join(telemetry.Default.LocalDir(), e.Name()))
		put(e.Name(), len(data))
		h.Write(data)
	}
	put(vos.DeadCount())
	return h.Sum64()
}

// zzvOutcomeSet renders the distinct outcomes and violation classes of an exploration.
func zzvOutcomeSet(st sched.Stats) string {
	var outs []string
	for o := range st.Outcomes {
		outs = append(outs, fmt.Sprintf("%016x", o))
	}
	sort.Strings(outs)
	sigs := map[string]bool{}
	for _, f := range st.Violations {
		for _, m := range f.Messages {
			sigs[zzvSigC03(f, m)] = true
		}
	}
	var ss []string
	for s := range sigs {
		ss = append(ss, s)
	}
	sort.Strings(ss)
	return fmt.Sprint(outs, ss)
}

// zzvStackInc increments the stack counter from one fixed call site (so that both threads
// present the same call stack) and books the increment under the encoded name.
//
//go:noinline
func zzvStackInc(w *zzvWorld, sc *StackCounter) {
	w.begun["stk"]++
	sched.MarkOp()
	sc.Inc()
	// Register the counters the stack counter created with the world's oracle.
	for _, c := range sc.Counters() {
		known := false
		for _, k := range w.ctrs {
			if k == c {
				known = true
			}
		}
		if !known {
			w.ctrs = append(w.ctrs, c)
		}
	}
	if n := len(sc.Names()); n > 1 {
		w.stepErr = append(w.stepErr, fmt.Sprintf("unknown counter: one call stack produced %d stack counters", n))
	}
}
