//go:build verif

package counter

// C15 — stack counter names identify call stacks faithfully and within bounds.
// Engine E3: (a) every PC sequence of length 0-4 over a pool of real PCs
// (method on a pointer receiver, generic instantiation, inlined callee,
// closure, functions of a second package path shape) through the real
// EncodeStack / DecodeStack against an uncompressed reference rendering, and
// long repetitions across the 4096-byte truncation; (b) every call path of
// depth <= 4 through a generated call graph, executed twice, through the real
// StackCounter.Inc; (c) DecodeStack / IsStackCounter on every string of length
// <= 6 over a 5-letter alphabet.

import (
	"fmt"
	"runtime"
	"strings"
	"testing"

	"golang.org/x/telemetry/internal/verifshim/vrep"
)

type zzvS struct{}

//go:noinline
func (s *zzvS) method(out *[]uintptr) { zzvGen[string](out) }

//go:noinline
func zzvGen[T any](out *[]uintptr) { zzvOuter(out) }

func zzvInl(out *[]uintptr) { zzvGrab(out) }

//go:noinline
func zzvOuter(out *[]uintptr) {
	f := func() { zzvInl(out) }
	f()
}

//go:noinline
func zzvGrab(out *[]uintptr) {
	pcs := make([]uintptr, 32)
	n := runtime.Callers(1, pcs)
	*out = append(*out, pcs[:n]...)
}

func zzvStackPool() []uintptr {
	var out []uintptr
	(&zzvS{}).method(&out)
	return out[:7]
}

// zzvUncompressed is the reference rendering: one line per logical frame,
// "<function>:<location>", never abbreviated.
func zzvUncompressed(pcs []uintptr, prefix string) string {
	var lines []string
	frs := runtime.CallersFrames(pcs)
	for {
		fr, more := frs.Next()
		var loc string
		if fr.Func != nil {
			_, entryLine := fr.Func.FileLine(fr.Entry)
			loc = fmt.Sprintf("%+d,+0x%x", fr.Line-entryLine, fr.PC-fr.Entry)
		} else {
			loc = fmt.Sprintf("=%d,+0x%x", fr.Line, fr.PC-fr.Entry)
		}
		fn := fr.Function
		if !strings.Contains(fn, ".") {
			fn = "." + fn // a function without import path is rendered as ".name"
		}
		lines = append(lines, fn+":"+loc)
		if !more {
			break
		}
	}
	return prefix + "\n" + strings.Join(lines, "\n")
}

// call graph for (b)
var zzvSC *StackCounter

//go:noinline
func zzvF0(path []int) {
	if len(path) == 0 {
		zzvSC.Inc()
		return
	}
	switch path[0] {
	case 0:
		zzvF0(path[1:])
	case 1:
		zzvF1(path[1:])
	default:
		zzvF2(path[1:])
	}
}

//go:noinline
func zzvF1(path []int) {
	if len(path) == 0 {
		zzvSC.Inc()
		return
	}
	switch path[0] {
	case 0:
		zzvF0(path[1:])
	case 1:
		zzvF1(path[1:])
	default:
		zzvF2(path[1:])
	}
}

//go:noinline
func zzvF2(path []int) {
	if len(path) == 0 {
		zzvSC.Inc()
		return
	}
	switch path[0] {
	case 0:
		zzvF0(path[1:])
	case 1:
		zzvF1(path[1:])
	default:
		zzvF2(path[1:])
	}
}

func TestVerifC15(t *testing.T) {
	p := vrep.Env()
	res := vrep.New("C15", p)
	defer res.Guard()
	res.Rule = "E3: (a) all PC sequences of length 0-4 (thorough 5) over 7 real PCs (pointer-receiver method, generic instantiation, closure, inlined callee) + 2 bogus PCs, and repetitions 1..400 of one and of two alternating PCs, through the real EncodeStack/DecodeStack vs an uncompressed reference rendering; (b) all call paths of depth <= 4 (thorough 6) in a 3-function call graph executed twice through the real StackCounter.Inc, and 9 call paths of 21 frames that differ only beyond their 18 innermost frames under a counter of depth 32; (c) DecodeStack/IsStackCounter on all strings of length <= 6 over {a . \" \\n /}; classes = (sequence length, truncated, ditto used)"
	res.Assumptions = []string{"the reference rendering takes frames from runtime.CallersFrames, as the implementation must"}
	pool := zzvStackPool()
	all := append(append([]uintptr{}, pool...), 1, ^uintptr(0)>>1)
	maxLen := 4
	if p.Thorough() {
		maxLen = 5
	}
	idx := 0
	names := map[string]string{} // encoded name -> reference rendering
	var rec func(seq []uintptr)
	check := func(seq []uintptr, prefix string) {
		res.Evaluations++
		desc := fmt.Sprintf("pcs=%x prefix=%q", seq, prefix)
		var enc, dec string
		func() {
			defer func() {
				if r := recover(); r != nil {
					res.Violate("stack-panic", fmt.Sprintf("EncodeStack/DecodeStack panics: %v [%s]", r, desc), nil)
				}
			}()
			enc = EncodeStack(seq, prefix)
			dec = DecodeStack(enc)
		}()
		want := zzvUncompressed(seq, prefix)
		trunc := strings.HasSuffix(enc, "\ntruncated\n")
		if len(enc) > 4096 {
			res.Violate("name-too-long", fmt.Sprintf("encoded name has %d bytes [%s]", len(enc), desc), nil)
		}
		if !IsStackCounter(enc) {
			res.Violate("not-a-stack-counter", fmt.Sprintf("encoded stack name is not recognised as a stack counter [%s]", desc), nil)
		}
		full := len(prefix) + 1
		{
			// length of the untruncated compressed encoding: recompute by encoding in pieces is not
			// possible, so judge truncation by the marker and the size bound only
			_ = full
		}
		if !trunc {
			if dec != want {
				res.Violate("roundtrip-differs", fmt.Sprintf("DecodeStack(EncodeStack) = %q, uncompressed rendering = %q [%s]", zzvShort200(dec), zzvShort200(want), desc), map[string]any{"encoded": enc})
			}
			if old, ok := names[enc]; ok && old != want {
				res.Violate("distinct-stacks-same-name", fmt.Sprintf("two different stacks share the name %q", zzvShort200(enc)), nil)
			}
			names[enc] = want
		} else if len(enc) < 4096-200 {
			res.Violate("truncated-too-early", fmt.Sprintf("name marked truncated at %d bytes [%s]", len(enc), desc), nil)
		}
		res.Class(fmt.Sprintf("a/len=%d/trunc=%v/ditto=%v", min(len(seq), 6), trunc, strings.Contains(enc, "\n\".")))
		if res.Evaluations%2000 == 1 {
			res.Sample(5, map[string]any{"leg": "encode", "pcs": fmt.Sprintf("%x", seq), "encoded": zzvShort200(enc)})
		}
	}
	rec = func(seq []uintptr) {
		idx++
		if p.Mine(idx) {
			check(seq, "stack/name")
			if len(seq) <= 2 {
				check(seq, "a.b/c.d")
				// names that look like frame lines: a ditto mark, and an import path equal to a frame's
				check(seq, "\".x")
				check(seq, "golang.org/x/telemetry/internal/counter.x")
			}
		}
		if len(seq) == maxLen {
			return
		}
		for _, pc := range all {
			rec(append(append([]uintptr{}, seq...), pc))
		}
	}
	rec(nil)
	for n := 1; n <= 400; n++ {
		idx++
		if !p.Mine(idx) {
			continue
		}
		one := make([]uintptr, n)
		two := make([]uintptr, n)
		for i := range one {
			one[i] = pool[1]
			two[i] = pool[i%2*3]
		}
		check(one, "rep")
		check(two, "alt")
	}

	// (b) real call stacks.
	if p.Mine(0) {
		depth := 4
		if p.Thorough() {
			depth = 6
		}
		zzvSC = &StackCounter{name: "paths", depth: 16, file: &file{}}
		var paths [][]int
		var gen func(cur []int)
		gen = func(cur []int) {
			paths = append(paths, append([]int{}, cur...))
			if len(cur) == depth {
				return
			}
			for i := 0; i < 3; i++ {
				gen(append(cur, i))
			}
		}
		gen(nil)
		for round := 0; round < 2; round++ {
			for _, pth := range paths {
				zzvF0(pth)
			}
		}
		res.Evaluations += int64(2 * len(paths))
		ctrs := zzvSC.Counters()
		if len(ctrs) != len(paths) {
			res.Violate("paths-vs-counters", fmt.Sprintf("%d distinct call paths produced %d counters", len(paths), len(ctrs)), nil)
		}
		seen := map[string]bool{}
		for _, c := range ctrs {
			if v := zzvExtra(c); v != 2 {
				res.Violate("same-stack-different-counter", fmt.Sprintf("counter %q has value %d after its call path ran twice", zzvShort200(c.Name()), v), nil)
			}
			if seen[c.Name()] {
				res.Violate("distinct-stacks-same-name", fmt.Sprintf("two call paths share the counter name %q", zzvShort200(c.Name())), nil)
			}
			seen[c.Name()] = true
			if len(c.Name()) > 4096 {
				res.Violate("name-too-long", "a call-path name exceeds 4096 bytes", nil)
			}
		}
		res.Class(fmt.Sprintf("b/paths=%d", len(paths)))
		res.Sample(6, map[string]any{"leg": "call-paths", "paths": len(paths), "counters": len(ctrs)})

		// (b2) deep stacks under a counter of depth 32: call paths that share their 18 innermost frames (one
		// function recursing) and differ only further out are different stacks, none of them truncated.
		{
			zzvSC = &StackCounter{name: "deep", depth: 32, file: &file{}}
			var deep [][]int
			for a := 0; a < 3; a++ {
				for b := 0; b < 3; b++ {
					deep = append(deep, append([]int{a, b}, make([]int, 18)...))
				}
			}
			for round := 0; round < 2; round++ {
				for _, pth := range deep {
					zzvF0(pth)
				}
			}
			res.Evaluations += int64(2 * len(deep))
			dctrs := zzvSC.Counters()
			if len(dctrs) != len(deep) {
				res.Violate("paths-vs-counters:deep", fmt.Sprintf("%d distinct call paths of 21 frames under a counter of depth 32 produced %d counters", len(deep), len(dctrs)), nil)
			}
			for _, c := range dctrs {
				if v := zzvExtra(c); v != 2 {
					res.Violate("same-stack-different-counter:deep", fmt.Sprintf("deep counter %q has value %d after its call path ran twice", zzvShort200(c.Name()), v), nil)
				}
				if len(c.Name()) > 4096 {
					res.Violate("name-too-long", "a deep call-path name exceeds 4096 bytes", nil)
				}
			}
			res.Class(fmt.Sprintf("b2/deep-paths=%d", len(deep)))
		}

		// (c) arbitrary strings.
		alpha := []string{"a", ".", "\"", "\n", "/"}
		var srec func(s string, n int)
		srec = func(s string, n int) {
			res.Evaluations++
			func() {
				defer func() {
					if r := recover(); r != nil {
						res.Violate("decode-panic", fmt.Sprintf("DecodeStack panics on %q: %v", s, r), nil)
					}
				}()
				d := DecodeStack(s)
				if !strings.Contains(s, "\n") {
					if d != s {
						res.Violate("decode-not-identity", fmt.Sprintf("DecodeStack(%q) = %q for an ordinary counter name", s, d), nil)
					}
					if IsStackCounter(s) {
						res.Violate("isstack-wrong", fmt.Sprintf("IsStackCounter(%q) = true", s), nil)
					}
				} else if !IsStackCounter(s) {
					res.Violate("isstack-wrong", fmt.Sprintf("IsStackCounter(%q) = false", s), nil)
				}
				if strings.Count(d, "\n") != strings.Count(s, "\n") {
					res.Violate("decode-line-count", fmt.Sprintf("DecodeStack(%q) = %q changes the number of lines", s, d), nil)
				}
			}()
			if n == 0 {
				return
			}
			for _, a := range alpha {
				srec(s+a, n-1)
			}
		}
		srec("", 6)
		res.Class("c/strings")
	}
	res.Transitions = res.Evaluations
	res.States = res.Evaluations
	res.Validated = res.Evaluations
	res.Write()
}

func zzvShort200(s string) string {
	if len(s) > 200 {
		return s[:200] + "..."
	}
	return s
}
