//go:build verif

package counter

// Shared fixture for the in-package harnesses of internal/counter
// (C03, C04, C05): a telemetry directory on /dev/shm, emulated processes
// (independent *file values), and the per-step oracle built on the
// independent decoder of verifshim/ref.

import (
	"fmt"
	"hash/fnv"
	"os"
	"path/filepath"
	"runtime/debug"
	"sort"
	"strings"
	"time"

	"golang.org/x/telemetry/internal/telemetry"
	"golang.org/x/telemetry/internal/verifshim/ref"
	"golang.org/x/telemetry/internal/verifshim/sched"
	"golang.org/x/telemetry/internal/verifshim/vatomic"
	"golang.org/x/telemetry/internal/verifshim/vos"
	"golang.org/x/telemetry/internal/verifshim/vrand"
)

var zzvT0 = time.Date(2024, 1, 3, 12, 0, 0, 0, time.UTC) // a Wednesday

type zzvWorld struct {
	base    string
	dir     string
	now     time.Time
	procs   []*file
	ctrs    []*Counter        // every Counter value of the scenario
	begun   map[string]uint64 // per name: sum of increments begun
	saturat bool              // scenario reaches the saturation limits
	stepErr []string          // violations found by the per-step oracle
	lastVal map[string]uint64 // per file+name: last persisted value seen (monotonicity)
	nsteps  int
}

func zzvBuildInfo() *debug.BuildInfo {
	return &debug.BuildInfo{GoVersion: "go1.23.5", Path: "example.com/prog", Main: debug.Module{Path: "example.com", Version: "v1.0.0"}}
}

// zzvNewWorld creates the directory and points the package globals at it.
func zzvNewWorld(base string, mode string) *zzvWorld {
	dir, err := os.MkdirTemp(base, "x")
	if err != nil {
		panic(err)
	}
	w := &zzvWorld{base: base, dir: dir, now: zzvT0, begun: map[string]uint64{}, lastVal: map[string]uint64{}}
	telemetry.Default = telemetry.NewDir(dir)
	os.MkdirAll(telemetry.Default.LocalDir(), 0o777)
	os.WriteFile(filepath.Join(telemetry.Default.LocalDir(), "weekends"), []byte("0\n"), 0o666)
	if mode != "" {
		os.WriteFile(telemetry.Default.ModeFile(), []byte(mode), 0o666)
	}
	CounterTime = func() time.Time { return w.now }
	vrand.IntnHook = func(n int) int { return 3 % n } // the week-end day drawn when the weekends file must be created
	CrashOnBugs = false
	vos.Poison = true
	vatomic.AddrCheck = vos.CheckAddr
	return w
}

func (w *zzvWorld) newProc() *file {
	f := &file{buildInfo: zzvBuildInfo()}
	w.procs = append(w.procs, f)
	return f
}

func (w *zzvWorld) newCounter(f *file, name string) *Counter {
	c := &Counter{name: name, file: f}
	w.ctrs = append(w.ctrs, c)
	return c
}

// add is the body of a harness thread's increment.
func (w *zzvWorld) add(c *Counter, n uint64) {
	w.begun[c.name] += n
	sched.MarkOp()
	c.Add(int64(n))
}

func (w *zzvWorld) teardown() {
	for _, f := range w.procs {
		if m := f.current.Load(); m != nil {
			m.close()
		}
	}
	vos.ReleaseDead()
	os.RemoveAll(w.dir)
}

func zzvExtra(c *Counter) uint64 { return c.state.load().extra() }

// persisted decodes every counter file of the directory with the reference
// decoder and returns per-name sums.
func (w *zzvWorld) persisted() (map[string]uint64, []string) {
	sum := map[string]uint64{}
	var errs []string
	ents, _ := os.ReadDir(telemetry.Default.LocalDir())
	for _, e := range ents {
		if !strings.HasSuffix(e.Name(), ".count") {
			continue
		}
		data, err := os.ReadFile(filepath.Join(telemetry.Default.LocalDir(), e.Name()))
		if err != nil {
			continue
		}
		if len(data) < ref.CFPage {
			// A file being created: header written, not yet extended.
			continue
		}
		cf, err := ref.DecodeCounterFile(data)
		if err != nil {
			errs = append(errs, fmt.Sprintf("malformed counter file %s: %v", zzvShort(e.Name()), err))
			continue
		}
		for name, v := range cf.Values {
			name = zzvAlias(name)
			key := e.Name() + "\x00" + name
			if v < w.lastVal[key] {
				errs = append(errs, fmt.Sprintf("value of %q decreased from %d to %d", zzvShort(name), w.lastVal[key], v))
			}
			w.lastVal[key] = v
			s := sum[name] + v
			if s < sum[name] {
				s = ^uint64(0)
			}
			sum[name] = s
		}
	}
	return sum, errs
}

func zzvShort(s string) string {
	if len(s) > 24 {
		return fmt.Sprintf("%s..(%d)", s[:12], len(s))
	}
	return s
}

func (w *zzvWorld) pending() map[string]uint64 {
	p := map[string]uint64{}
	for _, c := range w.ctrs {
		p[zzvAlias(c.name)] += zzvExtra(c)
	}
	return p
}

// stepOracle is the "at every instant" clause: persisted + pending never
// exceeds the increments begun, the file stays well-formed, values never
// decrease.
func (w *zzvWorld) stepOracle(kind string) {
	// Only a step that writes can newly break the invariant.
	if strings.HasPrefix(kind, "load") || kind == "lock" || kind == "once" || kind == "trylock" {
		return
	}
	w.nsteps++
	per, errs := w.persisted()
	pend := w.pending()
	for name, b := range w.begun {
		if w.saturat {
			continue
		}
		if per[name]+pend[name] > b {
			errs = append(errs, fmt.Sprintf("over-count: persisted %d + pending %d > begun %d", per[name], pend[name], b))
		}
	}
	for name, v := range per {
		if _, ok := w.begun[name]; !ok && v != 0 && !strings.HasPrefix(name, "filler") {
			errs = append(errs, fmt.Sprintf("unknown counter %q has value %d", zzvShort(name), v))
		}
	}
	for _, e := range errs {
		dup := false
		for _, o := range w.stepErr {
			if o == e {
				dup = true
			}
		}
		if !dup {
			w.stepErr = append(w.stepErr, e)
		}
	}
}

// threadFailures reports panics, deadlock and horizon of an execution.
func zzvThreadFailures(x *sched.Exec) []string {
	var v []string
	for _, t := range x.Threads {
		if t.Panic != nil {
			v = append(v, fmt.Sprintf("panic in thread %s: %v @ %s", t.Name, t.Panic, zzvPanicSite(t.PanicStack)))
		}
	}
	if x.Deadlock {
		v = append(v, "deadlock: no enabled thread while calls are outstanding")
	}
	if x.Horizon {
		v = append(v, fmt.Sprintf("step horizon %d reached: a call does not return", x.MaxSteps))
	}
	return v
}

// zzvPanicSite extracts the first repository function from a panic stack.
func zzvPanicSite(stack string) string {
	lines := strings.Split(stack, "\n")
	seenPanic := false
	for _, l := range lines {
		if strings.HasPrefix(l, "panic(") || strings.HasPrefix(l, "runtime.sigpanic") {
			seenPanic = true
			continue
		}
		if !seenPanic || strings.HasPrefix(l, "\t") || strings.HasPrefix(l, "runtime.") {
			continue
		}
		if strings.Contains(l, "verifshim") {
			continue
		}
		if i := strings.LastIndex(l, "("); i > 0 {
			l = l[:i]
		}
		if i := strings.LastIndex(l, "/"); i >= 0 {
			l = l[i+1:]
		}
		return l
	}
	return "?"
}

func zzvHash(parts ...any) uint64 {
	h := fnv.New64a()
	fmt.Fprint(h, parts...)
	return h.Sum64()
}

func zzvSortedKeys(m map[string]uint64) []string {
	var ks []string
	for k := range m {
		ks = append(ks, k)
	}
	sort.Strings(ks)
	return ks
}

// zzvReplay re-executes a recorded counterexample without the explorer and
// prints its step log.
func zzvReplay(path string, find func(name string) *sched.Scenario) {
	data, err := os.ReadFile(path)
	if err != nil {
		fmt.Println("replay:", err)
		os.Exit(2)
	}
	var art struct {
		Sig    string `json:"sig"`
		Msg    string `json:"msg"`
		Replay struct {
			Scenario string `json:"scenario"`
			Choices  []int  `json:"choices"`
		} `json:"replay"`
	}
	if err := zzvJSON(data, &art); err != nil {
		fmt.Println("replay:", err)
		os.Exit(2)
	}
	sc := find(art.Replay.Scenario)
	if sc == nil {
		fmt.Println("replay: unknown scenario", art.Replay.Scenario)
		os.Exit(2)
	}
	x, viol := sched.Replay(sc, art.Replay.Choices)
	for _, l := range x.Log {
		fmt.Println("  ", l)
	}
	fmt.Println("deviations from the default schedule:")
	for _, d := range x.DescribeChoices() {
		fmt.Println("  ", d)
	}
	if len(viol) == 0 {
		fmt.Println("replay: no violation reproduced")
		os.Exit(0)
	}
	for _, v := range viol {
		fmt.Println("VIOLATION-REPRODUCED:", v)
	}
	os.Exit(1)
}

// zzvAlias maps the encoded names of the scenario's stack counter (one call site, so one
// call stack) to the stack counter's own name, under which its increments are booked.
func zzvAlias(name string) string {
	if strings.HasPrefix(name, "stk\n") {
		return "stk"
	}
	return name
}
