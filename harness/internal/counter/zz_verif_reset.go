//go:build verif

package counter

// Added by the verification overlay (never part of a normal build): lets a
// harness in another package start from a process that has not called Open.

var zzvZeroOnce = openOnce

// ZZVResetOpen closes the default file's mapping and forgets that Open ran.
func ZZVResetOpen() {
	if m := defaultFile.current.Load(); m != nil {
		m.close()
	}
	defaultFile.current.Store(nil)
	defaultFile.mu.Lock()
	defaultFile.err = nil
	defaultFile.timeBegin, defaultFile.timeEnd = defaultFile.timeEnd.AddDate(-100, 0, 0), defaultFile.timeBegin.AddDate(-100, 0, 0)
	defaultFile.mu.Unlock()
	openOnce = zzvZeroOnce
	rotating = false
}
