//go:build verif

package counter

// C06 — reading a counter file is total and faithful.
// Engine E3: bounded-exhaustive enumeration of an abstract-file grammar
// (header variants x record sets x single and pairwise field damage); every
// element is decoded by the real Parse (with a step budget on its file-word
// loads) and by the independent decoder of verifshim/ref.

import (
	"runtime/metrics"
	"encoding/binary"
	"fmt"
	"os"
	"runtime/debug"
	"syscall"
	"sort"
	"strings"
	"testing"

	"golang.org/x/telemetry/internal/verifshim/ref"
	"golang.org/x/telemetry/internal/verifshim/vatomic"
	"golang.org/x/telemetry/internal/verifshim/vrep"
)

const zzvParseBudget = 200000

type zzvParseOut struct {
	f        *File
	err      error
	panicked string
	noReturn bool
	alloc    uint64 // heap bytes allocated while decoding
}

// zzvGuard is a buffer whose last byte is followed by an inaccessible page, so that a read
// beyond the end of the input faults instead of silently reading a neighbour.
var zzvGuard struct {
	region []byte
	usable int
}

func zzvGuarded(data []byte) []byte {
	const usable = 1 << 20
	if zzvGuard.region == nil {
		page := os.Getpagesize()
		r, err := syscall.Mmap(-1, 0, usable+page, syscall.PROT_READ|syscall.PROT_WRITE, syscall.MAP_ANON|syscall.MAP_PRIVATE)
		if err != nil {
			return data
		}
		if err := syscall.Mprotect(r[usable:], syscall.PROT_NONE); err != nil {
			return data
		}
		zzvGuard.region, zzvGuard.usable = r, usable
	}
	if len(data) > zzvGuard.usable {
		return data
	}
	dst := zzvGuard.region[zzvGuard.usable-len(data) : zzvGuard.usable : zzvGuard.usable]
	copy(dst, data)
	return dst
}

// zzvParse runs the real Parse under a step budget, on a copy of the input that ends at a
// guard page.
func zzvParse(data []byte) (out zzvParseOut) {
	data = zzvGuarded(data)
	debug.SetPanicOnFault(true)
	vatomic.Budget = zzvParseBudget
	defer func() {
		vatomic.Budget = 0
		if r := recover(); r != nil {
			if _, ok := r.(vatomic.BudgetExceeded); ok {
				out.noReturn = true
				return
			}
			out.panicked = fmt.Sprintf("%v @ %s", r, zzvPanicSite(string(debug.Stack())))
		}
	}()
	a0 := zzvAllocBytes()
	f, err := Parse("f.v1.count", data)
	return zzvParseOut{f: f, err: err, alloc: zzvAllocBytes() - a0}
}

// zzvAllocBytes reads the cumulative number of heap bytes allocated by the process (no stop-the-world).
func zzvAllocBytes() uint64 {
	s := []metrics.Sample{{Name: "/gc/heap/allocs:bytes"}}
	metrics.Read(s)
	if s[0].Value.Kind() != metrics.KindUint64 {
		return 0
	}
	return s[0].Value.Uint64()
}

// zzvLenient collects every (expanded name -> values) pair stored in any
// in-bounds record reachable from any bucket head by following next links,
// stopping at cycles: the largest set a decoder may legitimately report for a
// damaged file.
func zzvLenient(data []byte) map[string]map[uint64]bool {
	out := map[string]map[uint64]bool{}
	raws := map[string]map[string]bool{}
	if len(data) < 64 {
		return out
	}
	hdr := binary.LittleEndian.Uint32(data[28:])
	for b := 0; b < ref.CFBuckets; b++ {
		ho := int64(hdr) + 4 + int64(b)*4
		if ho+4 > int64(len(data)) {
			break
		}
		seen := map[uint32]bool{}
		for off := binary.LittleEndian.Uint32(data[ho:]); off != 0 && !seen[off]; {
			seen[off] = true
			if int64(off)+16 > int64(len(data)) {
				break
			}
			nl := binary.LittleEndian.Uint32(data[off+8:]) & 0xffffff
			if nl == 0 || int64(off)+16+int64(nl) > int64(len(data)) {
				break
			}
			raw := string(data[off+16 : off+16+nl])
			name := ref.ExpandStack(raw)
			if out[name] == nil {
				out[name] = map[uint64]bool{}
			}
			v := binary.LittleEndian.Uint64(data[off:])
			// several stored names decoding alike: any sum of their values is legitimate
			for old := range out[name] {
				if raws[name] != nil && !raws[name][raw] {
					out[name][old+v] = true
				}
			}
			if raws[name] == nil {
				raws[name] = map[string]bool{}
			}
			raws[name][raw] = true
			out[name][v] = true
			off = binary.LittleEndian.Uint32(data[off+12:])
		}
	}
	return out
}

type zzvC06 struct {
	res *vrep.Result
	p   vrep.Params
	idx int
}

// check runs the oracle on one file image.
func (c *zzvC06) check(desc string, data []byte) {
	c.idx++
	if !c.p.Mine(c.idx) {
		return
	}
	c.res.Evaluations++
	c.res.Transitions++
	out := zzvParse(data)
	cf, werr := ref.DecodeCounterFile(data)
	class := "malformed/rejected"
	// Decoding keeps the names and values it returns, nothing more: memory stays proportional to the input.
	if limit := uint64(64*len(data) + 1<<20); out.alloc > limit && !out.noReturn && out.panicked == "" {
		c.res.Violate("parse-memory", fmt.Sprintf("Parse allocates %d bytes for an input of %d bytes (more than 64x + 1 MiB): %s", out.alloc, len(data), desc), map[string]any{"case": desc})
	}
	switch {
	case out.noReturn:
		c.res.Violate("parse-no-return", fmt.Sprintf("Parse does not return within %d file-word loads: %s", zzvParseBudget, desc), map[string]any{"case": desc})
		class = "no-return"
	case out.panicked != "":
		c.res.Violate("parse-panic@"+out.panicked[strings.LastIndex(out.panicked, "@ ")+2:], fmt.Sprintf("Parse panics (%s): %s", out.panicked, desc), map[string]any{"case": desc})
		class = "panic"
	case werr == nil:
		class = fmt.Sprintf("wellformed/%d-records/%d-meta", len(cf.Records), len(cf.Meta))
		if out.err != nil {
			c.res.Violate("wellformed-rejected", fmt.Sprintf("well-formed file rejected (%v): %s", out.err, desc), map[string]any{"case": desc})
			break
		}
		if fmt.Sprint(zzvSortedMeta(out.f.Meta)) != fmt.Sprint(zzvSortedMeta(cf.Meta)) {
			c.res.Violate("meta-differs", fmt.Sprintf("metadata differs: library %v, reference %v: %s", out.f.Meta, cf.Meta, desc), map[string]any{"case": desc})
		}
		want := map[string]uint64{}
		for n, v := range cf.Values {
			// distinct stored names may decode alike: they count the same stack
			k := ref.ExpandStack(n)
			if want[k]+v < v {
				want[k] = ^uint64(0)
			} else {
				want[k] += v
			}
		}
		if len(want) != len(out.f.Count) {
			c.res.Violate("counts-differ", fmt.Sprintf("library returns %d counters, reference %d: %s", len(out.f.Count), len(want), desc), map[string]any{"case": desc})
			break
		}
		for n, v := range want {
			if g, ok := out.f.Count[n]; !ok || g != v {
				c.res.Violate("counts-differ", fmt.Sprintf("counter %q: library %d (present=%v), reference %d: %s", zzvShort(n), g, ok, v, desc), map[string]any{"case": desc})
				break
			}
		}
	case out.err == nil:
		class = "malformed/accepted"
		len := zzvLenient(data)
		for n, v := range out.f.Count {
			if !len[n][v] {
				c.res.Violate("invented-counter", fmt.Sprintf("result for a damaged file contains %q=%d which no reachable in-bounds record stores: %s", zzvShort(n), v, desc), map[string]any{"case": desc})
				break
			}
		}
	}
	c.res.Class(class)
	if c.res.Evaluations%5000 == 1 {
		c.res.Sample(6, map[string]any{"case": desc, "class": class})
	}
}

func zzvSortedMeta(m map[string]string) []string {
	var out []string
	for k, v := range m {
		out = append(out, k+"="+v)
	}
	sort.Strings(out)
	return out
}

var zzvMetaOK = ref.MetaString([][2]string{{"TimeBegin", "2024-01-03T00:00:00Z"}, {"TimeEnd", "2024-01-07T00:00:00Z"}, {"Program", "example.com/prog"}, {"Version", "v1.0.0"}, {"GoVersion", "go1.23.5"}, {"GOOS", "linux"}, {"GOARCH", "amd64"}})

// zzvBases are the record sets damage is applied to.
// zzvCollideN returns n short names that hash to the same bucket.
func zzvCollideN(n int) []string {
	out := []string{"k0"}
	for i := 1; len(out) < n; i++ {
		name := fmt.Sprintf("k%d", i)
		if ref.FNV(name) == ref.FNV("k0") {
			out = append(out, name)
		}
	}
	return out
}

func zzvBases() map[string][]string {
	k1, k2 := zzvCollide()
	return map[string][]string{
		"five-collide": zzvCollideN(5), // chains long enough for cycles of length 3, 4 and 5
		"empty":       {},
		"one":         {"a"},
		"two-collide": {k1, k2},
		"two-apart":   {"a", "b"},
		"three":       {k1, k2, "a"},
		"stack":       {"s\npkg/x.f:+1,+0x1", "s\npkg/x.f:+1,+0x1\n\".g:+2,+0x2"},
		"stack-coll":  {"s\npkg/x.f:+1,+0x1\n\".g:+2,+0x2"},
		"stack-alias": {"s\npkg/a.f:+1,+0x10\npkg/a.g:+2,+0x20", "s\npkg/a.f:+1,+0x10\n\".g:+2,+0x20", "ordinary"},
		"big":         {zzvBig('n'), "a"},
		"nul":         {"a\x00b", "c:{a,b}"},
	}
}

type zzvField struct {
	name string
	off  uint32
}

func zzvFields(w *ref.CFWriter, offs []uint32, names []string) []zzvField {
	fs := []zzvField{{"hdrlen", 28}, {"limit", w.HdrLen}}
	seen := map[uint32]bool{}
	for _, n := range names {
		b := ref.FNV(n)
		if !seen[b] {
			seen[b] = true
			fs = append(fs, zzvField{fmt.Sprintf("head[%d]", b), w.HdrLen + 4 + 4*b})
		}
	}
	for b := uint32(0); b < ref.CFBuckets; b++ {
		if !seen[b] {
			fs = append(fs, zzvField{fmt.Sprintf("unusedhead[%d]", b), w.HdrLen + 4 + 4*b})
			break
		}
	}
	for i, o := range offs {
		fs = append(fs, zzvField{fmt.Sprintf("rec%d.len", i), o + 8}, zzvField{fmt.Sprintf("rec%d.next", i), o + 12}, zzvField{fmt.Sprintf("rec%d.value", i), o})
	}
	return fs
}

func zzvDamageValues(w *ref.CFWriter, offs []uint32) []uint32 {
	vals := []uint32{0, 1, 31, 32, w.HdrLen, w.HdrLen + 4, uint32(len(w.Data)) - 16, uint32(len(w.Data)) - 4, uint32(len(w.Data)), uint32(len(w.Data)) + 32, 0xffffffff, 0xff000001, 0x00ffffff,
		// values whose rounding to the record unit or to a page overflows 32 bits
		0xffffffe0, 0xffffc000, 0xffffbfe0, 0xffffc020, 0x80000000, 0x7fffffe0}
	for _, o := range offs {
		vals = append(vals, o, o+1, o+4, o+32)
		// name lengths that make the record's name end just before, at, and up to
		// 17 bytes past the end of the file
		fit := uint32(len(w.Data)) - o - 16
		vals = append(vals, fit-1, fit, fit+1, fit+8, fit+16, fit+17, fit|0xff000000, (fit+1)|0xff000000)
	}
	lim := binary.LittleEndian.Uint32(w.Data[w.HdrLen:])
	vals = append(vals, lim, lim-32)
	// around the end of the hash table (the lowest offset a record or the limit may have)
	tableEnd := w.HdrLen + 4 + 4*ref.CFBuckets
	vals = append(vals, tableEnd-8, tableEnd-4, tableEnd-3, tableEnd-1, tableEnd, tableEnd+1, tableEnd+31, tableEnd+32)
	// de-duplicate
	seen := map[uint32]bool{}
	var out []uint32
	for _, v := range vals {
		if !seen[v] {
			seen[v] = true
			out = append(out, v)
		}
	}
	return out
}

func TestVerifC06(t *testing.T) {
	p := vrep.Env()
	res := vrep.New("C06", p)
	defer res.Guard()
	res.Rule = "E3: every element of the abstract-file grammar (header/metadata/limit variants, record sets, every single and (thorough: every) pair of 32-bit field overwrites from a boundary-value menu) is decoded by the real Parse under a step budget and by the reference decoder; classes are oracle classes (well-formed by record count, malformed accepted/rejected); every input ends at an inaccessible guard page; heap allocated per input bounded by 64x its size + 1 MiB; a family of files with overlapping records"
	res.Assumptions = []string{"the reference decoder (engine/ref/counterfile.go) is the arbiter of well-formedness", "little-endian host"}
	c := &zzvC06{res: res, p: p}
	if p.Replay != "" {
		fmt.Println("C06 replay: the artefact's 'case' string names the grammar element; re-run the quick check to reproduce (cases are deterministic)")
		return
	}

	// A. Whole-file variants.
	lengths := []int{0, 1, 27, 28, 31, 32, 16383, 16384, 16385, 32768}
	prefixes := map[string]string{"ok": ref.CFPrefix, "oneoff": "# telemetry/counter file v1\r", "v2": "# telemetry/counter file v2\n"}
	metas := map[string]string{"ok": zzvMetaOK, "none": "", "nosep": "TimeBegin 2024\n\n", "nul-inside": "A: b\x00C: d\n", "unterminated": "A: b", "dupkey": "A: b\nA: c\n\n", "max": "K: " + strings.Repeat("v", 505) + "\n\n",
		"colon-in-value": "Program: example.com/cmd: the tool\nVersion: v1: x: y\n\n", "empty-value": "K: \nL: v\n\n", "space-key": "A B: c\n\n", "colon-key": "A:B: c\n\n", "value-ends-colon": "K: v:\nL: : \n\n"}
	for _, L := range lengths {
		for pn, pv := range prefixes {
			for mn, mv := range metas {
				w := ref.NewCFWriter(mv)
				w.Add("a", 7)
				data := w.Bytes()
				copy(data, pv)
				switch {
				case L < len(data):
					data = data[:L]
				case L > len(data):
					data = append(data, make([]byte, L-len(data))...)
				}
				c.check(fmt.Sprintf("A:len=%d prefix=%s meta=%s", L, pn, mn), data)
			}
		}
	}
	// Header-length word and limit variants on otherwise valid one- and two-page files.
	for _, pages := range []int{1, 2} {
		for _, names := range [][]string{{}, {"a"}, {"a", zzvBig('q')}} {
			w := ref.NewCFWriter(zzvMetaOK)
			for i, n := range names {
				w.Add(n, uint64(i+3))
			}
			for len(w.Data) < pages*ref.CFPage {
				w.Data = append(w.Data, make([]byte, ref.CFPage)...)
			}
			actual := w.HdrLen
			size := uint32(len(w.Data))
			// incl. header lengths that put the last bucket head (or the first, for a file one byte
			// longer than a page) within the last three bytes of the input
			for _, hv := range []uint32{0, 4, 28, 31, 32, 33, actual - 32, actual, actual + 32, 16384, 16385, size, 0xffffffff,
				size - 2048 - 3, size - 2048 - 2, size - 2048 - 1, size - 2048, 16380, 16381, 16383, 14333} {
				for _, lv := range []int64{-1, 0, int64(actual), int64(len(w.Data)) - 32, int64(len(w.Data)), int64(len(w.Data)) + 1, 0xffffffff} {
					d := w.Bytes()
					binary.LittleEndian.PutUint32(d[28:], hv)
					if lv >= 0 && int(actual)+4 <= len(d) {
						binary.LittleEndian.PutUint32(d[actual:], uint32(lv))
					}
					c.check(fmt.Sprintf("A2:pages=%d records=%d hdrlen=%d limit=%d", pages, len(names), hv, lv), d)
					for _, extra := range []int{1, 2, 3, 5} {
						c.check(fmt.Sprintf("A2:pages=%d+%dB records=%d hdrlen=%d limit=%d", pages, extra, len(names), hv, lv), append(append([]byte{}, d...), make([]byte, extra)...))
					}
				}
			}
		}
	}

	// C. Overlapping records: one chain visits a record every 32 bytes, every record's name runs to the end of
	// the file (name lengths up to 2^24-1 fit the length word), so all names are distinct and overlap.
	for _, size := range []int{32768, 65536} {
		for _, step := range []uint32{32, 64} {
			w := ref.NewCFWriter(zzvMetaOK)
			d := append(w.Bytes(), make([]byte, size)...)[:size]
			first := (w.HdrLen + 4 + 4*ref.CFBuckets + 31) / 32 * 32
			binary.LittleEndian.PutUint32(d[w.HdrLen:], uint32(size)) // limit
			binary.LittleEndian.PutUint32(d[w.HdrLen+4:], first)      // head of bucket 0
			for off := first; int(off)+48 <= size; off += step {
				binary.LittleEndian.PutUint64(d[off:], uint64(off))
				binary.LittleEndian.PutUint32(d[off+8:], uint32(size)-off-16|0xff000000)
				next := off + step
				if int(next)+48 > size {
					next = 0
				}
				binary.LittleEndian.PutUint32(d[off+12:], next)
			}
			c.check(fmt.Sprintf("C:overlapping records size=%d step=%d", size, step), d)
		}
	}

	// B. Field damage.
	bases := zzvBases()
	var bnames []string
	for n := range bases {
		bnames = append(bnames, n)
	}
	sort.Strings(bnames)
	for _, bn := range bnames {
		names := bases[bn]
		w := ref.NewCFWriter(zzvMetaOK)
		var offs []uint32
		for i, n := range names {
			offs = append(offs, w.Add(n, uint64(10+i)))
		}
		c.check("B:"+bn+" undamaged", w.Bytes())
		fields := zzvFields(w, offs, names)
		vals := zzvDamageValues(w, offs)
		for _, f := range fields {
			for _, v := range vals {
				d := w.Bytes()
				binary.LittleEndian.PutUint32(d[f.off:], v)
				c.check(fmt.Sprintf("B:%s %s=%#x", bn, f.name, v), d)
			}
		}
		pairs := p.Thorough() || bn == "two-collide" || bn == "one" || bn == "stack-coll"
		if !pairs {
			continue
		}
		for i, f := range fields {
			for _, g := range fields[i+1:] {
				for _, v := range vals {
					for _, u := range vals {
						d := w.Bytes()
						binary.LittleEndian.PutUint32(d[f.off:], v)
						binary.LittleEndian.PutUint32(d[g.off:], u)
						c.check(fmt.Sprintf("B2:%s %s=%#x %s=%#x", bn, f.name, v, g.name, u), d)
					}
				}
			}
			if p.Expired() {
				res.Exhaustive = false
				break
			}
		}
	}
	res.States = res.Evaluations
	res.Validated = res.Evaluations
	res.Write()
}
