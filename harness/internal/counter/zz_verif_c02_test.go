//go:build verif

package counter

// C02 (counter leg): with mode off the counter API creates, changes and
// removes nothing in the telemetry directory.

import (
	"fmt"
	"os"
	"strings"
	"testing"

	"golang.org/x/telemetry/internal/verifshim/ref"
	"golang.org/x/telemetry/internal/verifshim/vrep"
)

func TestVerifC02Counter(t *testing.T) {
	p := vrep.Env()
	res := vrep.New("C02", p)
	defer res.Guard()
	base, _ := vrep.Scratch("c02c")
	res.Rule = "mode-off contents x pre-existing directory contents x (Add before open, open, Add, growth, rotation): directory snapshot unchanged"
	if !p.Mine(0) {
		res.Write()
	}
	for _, mode := range []string{"off", "off 2024-01-01", "off 2019-12-31"} {
		for _, pre := range []string{"empty", "with-old-files", "no-local-dir"} {
			w := zzvNewWorld(base, mode)
			switch pre {
			case "with-old-files":
				os.WriteFile(w.dir+"/local/old-2023-12-27.v1.count", []byte("x"), 0o666)
				os.WriteFile(w.dir+"/local/2023-12-31.json", []byte("{}"), 0o666)
				os.MkdirAll(w.dir+"/upload", 0o777)
				os.WriteFile(w.dir+"/upload/2023-12-24.json", []byte("{}"), 0o666)
			case "no-local-dir":
				os.RemoveAll(w.dir + "/local")
			}
			before := ref.Snapshot(w.dir)
			f := w.newProc()
			c1, c2 := w.newCounter(f, "a"), w.newCounter(f, zzvBig('z'))
			func() {
				defer func() {
					if r := recover(); r != nil {
						res.Violate("mode-off-panic", fmt.Sprintf("counter API panics in mode %q: %v", mode, r), nil)
					}
				}()
				c1.Add(1)
				f.rotate1()
				c1.Add(2)
				c2.Add(4)
				w.now = w.now.AddDate(0, 0, 7)
				f.rotate1()
				c1.Add(8)
			}()
			after := ref.Snapshot(w.dir)
			res.Evaluations++
			if d := before.Diff(after); len(d) > 0 {
				res.Violate("mode-off-counter-wrote", fmt.Sprintf("mode %q, directory %s: counter API changed the directory: %v", mode, pre, d), map[string]any{"mode": mode, "pre": pre})
			}
			if f.current.Load() != nil {
				res.Violate("mode-off-file-open", fmt.Sprintf("mode %q: a counter file is mapped", mode), nil)
			}
			res.Class("off/" + pre)
			w.teardown()
		}
	}
	// The mode is switched off while the process runs: from then on nothing may be created
	// or changed, in particular not next week's file at rotation.
	for _, first := range []string{"local", "on 2024-01-01", "<absent>"} {
		w := zzvNewWorld(base, "")
		if first != "<absent>" {
			os.WriteFile(w.dir+"/mode", []byte(first), 0o666)
		}
		f := w.newProc()
		c := w.newCounter(f, "a")
		f.rotate1()
		c.Add(1)
		os.WriteFile(w.dir+"/mode", []byte("off 2024-01-04"), 0o666)
		before := ref.Snapshot(w.dir)
		func() {
			defer func() {
				if r := recover(); r != nil {
					res.Violate("mode-off-panic", fmt.Sprintf("counter API panics after the mode was switched off: %v", r), nil)
				}
			}()
			w.now = w.now.AddDate(0, 0, 7) // past the recorded end
			f.rotate1()
			c.Add(2)
			w.newCounter(f, "b").Add(4)
			w.now = w.now.AddDate(0, 0, 7)
			f.rotate1()
			c.Add(8)
		}()
		after := ref.Snapshot(w.dir)
		res.Evaluations++
		var changed []string
		for _, d := range before.Diff(after) {
			if strings.HasPrefix(d, "created ") || strings.HasPrefix(d, "removed ") {
				changed = append(changed, d)
			}
		}
		if len(changed) > 0 {
			res.Violate("mode-off-while-running-wrote", fmt.Sprintf("mode switched from %q to off while running, yet after the next rotation: %v", first, changed), map[string]any{"first_mode": first})
		}
		res.Class("off-while-running/" + first)
		w.teardown()
	}
	res.Transitions = res.Evaluations
	res.States = res.Evaluations
	res.Validated = res.Evaluations
	res.Write()
}
