//go:build verif

package counter

// C02 (counter leg): with mode off the counter API creates, changes and
// removes nothing in the telemetry directory.

import (
	"fmt"
	"os"
	"testing"

	"golang.org/x/telemetry/internal/verifshim/ref"
	"golang.org/x/telemetry/internal/verifshim/vrep"
)

func TestVerifC02Counter(t *testing.T) {
	p := vrep.Env()
	res := vrep.New("C02", p)
	defer res.Guard()
	base, _ := vrep.Scratch("c02c")
	res.Rule = "mode-off contents x pre-existing directory contents x (Add before open, open, Add, growth, rotation): directory snapshot unchanged"
	if !p.Mine(0) {
		res.Write()
	}
	for _, mode := range []string{"off", "off 2024-01-01", "off 2019-12-31"} {
		for _, pre := range []string{"empty", "with-old-files", "no-local-dir"} {
			w := zzvNewWorld(base, mode)
			switch pre {
			case "with-old-files":
				os.WriteFile(w.dir+"/local/old-2023-12-27.v1.count", []byte("x"), 0o666)
				os.WriteFile(w.dir+"/local/2023-12-31.json", []byte("{}"), 0o666)
				os.MkdirAll(w.dir+"/upload", 0o777)
				os.WriteFile(w.dir+"/upload/2023-12-24.json", []byte("{}"), 0o666)
			case "no-local-dir":
				os.RemoveAll(w.dir + "/local")
			}
			before := ref.Snapshot(w.dir)
			f := w.newProc()
			c1, c2 := w.newCounter(f, "a"), w.newCounter(f, zzvBig('z'))
			func() {
				defer func() {
					if r := recover(); r != nil {
						res.Violate("mode-off-panic", fmt.Sprintf("counter API panics in mode %q: %v", mode, r), nil)
					}
				}()
				c1.Add(1)
				f.rotate1()
				c1.Add(2)
				c2.Add(4)
				w.now = w.now.AddDate(0, 0, 7)
				f.rotate1()
				c1.Add(8)
			}()
			after := ref.Snapshot(w.dir)
			res.Evaluations++
			if d := before.Diff(after); len(d) > 0 {
				res.Violate("mode-off-counter-wrote", fmt.Sprintf("mode %q, directory %s: counter API changed the directory: %v", mode, pre, d), map[string]any{"mode": mode, "pre": pre})
			}
			if f.current.Load() != nil {
				res.Violate("mode-off-file-open", fmt.Sprintf("mode %q: a counter file is mapped", mode), nil)
			}
			res.Class("off/" + pre)
			w.teardown()
		}
	}
	res.Transitions = res.Evaluations
	res.States = res.Evaluations
	res.Validated = res.Evaluations
	res.Write()
}
