//go:build verif

package counter

// C09 (counter leg) — week boundaries are computed and honoured.
// E3: complete sweep of counterSpan over every day 1990-01-01..2049-12-31 x 7
// week-end settings x 4 times of day; malformed settings; real file creation,
// naming, metadata and rotation on every day of 2023-12-01..2025-03-31 x 7.

import (
	"fmt"
	"os"
	"path/filepath"
	"strings"
	"testing"
	"time"

	"golang.org/x/telemetry/internal/telemetry"
	"golang.org/x/telemetry/internal/verifshim/ref"
	"golang.org/x/telemetry/internal/verifshim/vos"
	"golang.org/x/telemetry/internal/verifshim/vrep"
	"golang.org/x/telemetry/internal/verifshim/vtime"
)

// zzvDefaultCounterTime is the library's own clock, captured before any harness replaces it.
var zzvDefaultCounterTime = CounterTime

// zzvSpanNow returns the span a process opening its counter file right now gets: a fresh
// process, the real rotate1 (the only entry point the property speaks of), span read from
// the created file's metadata. The file is removed again.
func zzvSpanNow() (begin, end time.Time, err error) {
	f := &file{buildInfo: zzvBuildInfo()}
	exp := f.rotate1()
	m := f.current.Load()
	if m == nil {
		if f.err != nil {
			return time.Time{}, time.Time{}, f.err
		}
		return time.Time{}, time.Time{}, fmt.Errorf("no file")
	}
	name := m.f.Name()
	data, rerr := os.ReadFile(name)
	m.close()
	os.Remove(name)
	if rerr != nil {
		return time.Time{}, time.Time{}, rerr
	}
	cf, derr := ref.DecodeCounterFile(data)
	if derr != nil {
		return time.Time{}, time.Time{}, derr
	}
	begin, e1 := time.Parse(time.RFC3339, cf.Meta["TimeBegin"])
	end, e2 := time.Parse(time.RFC3339, cf.Meta["TimeEnd"])
	if e1 != nil || e2 != nil {
		return time.Time{}, time.Time{}, fmt.Errorf("metadata span unparsable: %v %v", e1, e2)
	}
	if !exp.Equal(end) {
		return begin, end, fmt.Errorf("rotate1 reports expiry %s, metadata says %s", exp.Format(time.RFC3339), end.Format(time.RFC3339))
	}
	return begin, end, nil
}

func TestVerifC09(t *testing.T) {
	p := vrep.Env()
	res := vrep.New("C09", p)
	defer res.Guard()
	base, _ := vrep.Scratch("c09")
	res.Rule = "E3: (a) the span of a freshly opened file (real rotate1, metadata of the created file) for every day of 1990..2049 (quick: 2022..2027) x 7 week-end settings x {00:00, 00:00+1ns, 12:00, 23:59:59.999999999}, plus a clock that crosses midnight at its 2nd..5th reading inside one open (14 days x 7 settings); (b) 14 malformed/odd settings x every day of 2023-12-30..2024-03-02; (c) real open, naming, metadata, Add, rotation exactly at the recorded end and 1ns before, on every day of 2023-12-01..2025-03-31 (quick: every day of 5 months) x 7 settings; classes = (month, weekday distance) and setting classes"
	vos.Poison = false
	w := zzvNewWorld(base, "")
	defer w.teardown()
	wfile := filepath.Join(telemetry.Default.LocalDir(), "weekends")
	fromY, toY := 2022, 2027
	if p.Thorough() {
		fromY, toY = 1990, 2049
	}
	tods := []time.Duration{0, 1, 12 * time.Hour, 24*time.Hour - 1}
	idx := 0
	// (a)
	for wd := 0; wd < 7; wd++ {
		os.WriteFile(wfile, []byte(fmt.Sprintf("%d\n", wd)), 0o666)
		for day := time.Date(fromY, 1, 1, 0, 0, 0, 0, time.UTC); day.Year() <= toY; day = day.AddDate(0, 0, 1) {
			idx++
			if !p.Mine(idx) {
				continue
			}
			for _, tod := range tods {
				now := day.Add(tod)
				w.now = now
				b, e, err := zzvSpanNow()
				res.Evaluations++
				rb, re := ref.WeekSpan(now, time.Weekday(wd))
				if err != nil {
					res.Violate("span-error", fmt.Sprintf("counterSpan fails at %s weekend %d: %v", now.Format(time.RFC3339Nano), wd, err), nil)
					continue
				}
				if !b.Equal(rb) || !e.Equal(re) || b.Location() != time.UTC {
					res.Violate("span-differs", fmt.Sprintf("at %s with week-end day %d: span [%s, %s), documented rule gives [%s, %s)", now.Format(time.RFC3339Nano), wd, b.Format(time.RFC3339), e.Format(time.RFC3339), rb.Format(time.RFC3339), re.Format(time.RFC3339)), map[string]any{"now": now.Format(time.RFC3339Nano), "weekend": wd})
				}
			}
			res.Class(fmt.Sprintf("span/%02d/ahead=%d", int(day.Month()), (wd-int(day.Weekday())+6)%7+1))
		}
	}
	// (a2) the package's own clock (CounterTime as initialised by the library) over a system clock that
	// reports local times in zones ahead of and behind UTC: the span is the UTC day's, whatever the zone.
	if p.Mine(1) {
		saved := CounterTime
		CounterTime = zzvDefaultCounterTime
		for wd := 0; wd < 7; wd += 3 {
			os.WriteFile(wfile, []byte(fmt.Sprintf("%d\n", wd)), 0o666)
			for day := time.Date(2024, 2, 24, 0, 0, 0, 0, time.UTC); day.Before(time.Date(2024, 3, 9, 0, 0, 0, 0, time.UTC)); day = day.AddDate(0, 0, 1) {
				for _, tod := range []time.Duration{0, 5 * time.Hour, 12 * time.Hour, 19 * time.Hour, 24*time.Hour - 1} {
					for _, zone := range []int{0, 14, -12, 5} {
						now := day.Add(tod)
						vtime.NowHook = func() time.Time { return now.In(time.FixedZone("z", zone*3600)) }
						b, e, err := zzvSpanNow()
						vtime.NowHook = nil
						res.Evaluations++
						rb, re := ref.WeekSpan(now, time.Weekday(wd))
						if err != nil || !b.Equal(rb) || !e.Equal(re) {
							res.Violate("span-differs:system-clock-zone", fmt.Sprintf("system clock %s (zone UTC%+d) with week-end day %d: span [%s, %s) err=%v, documented rule gives [%s, %s)", now.Format(time.RFC3339), zone, wd, b.Format(time.RFC3339), e.Format(time.RFC3339), err, rb.Format(time.RFC3339), re.Format(time.RFC3339)), nil)
						}
					}
				}
				res.Class("span/system-clock-zones")
			}
		}
		CounterTime = saved
	}
	// (a5) a clock that advances between readings and crosses midnight inside one open: whichever reading the
	// library takes for the file's begin, the whole span must be the documented one for that same reading
	// (begin and end computed from two different days would give a span that is a day short or a week long).
	if p.Mine(3) {
		saved := CounterTime
		for wd := 0; wd < 7; wd++ {
			os.WriteFile(wfile, []byte(fmt.Sprintf("%d\n", wd)), 0o666)
			for day := time.Date(2024, 2, 24, 0, 0, 0, 0, time.UTC); day.Before(time.Date(2024, 3, 9, 0, 0, 0, 0, time.UTC)); day = day.AddDate(0, 0, 1) {
				for firstAfter := 1; firstAfter <= 4; firstAfter++ { // the reading from which the clock shows the next day
					var readings []time.Time
					CounterTime = func() time.Time {
						t := day.Add(24*time.Hour - time.Duration(firstAfter-len(readings)))
						if len(readings) >= firstAfter {
							t = day.Add(24*time.Hour + time.Duration(len(readings)-firstAfter))
						}
						readings = append(readings, t)
						return t
					}
					b, e, err := zzvSpanNow()
					res.Evaluations++
					ok := false
					for _, r := range readings {
						if rb, re := ref.WeekSpan(r, time.Weekday(wd)); b.Equal(rb) && e.Equal(re) {
							ok = true
						}
					}
					if err != nil || !ok {
						res.Violate("span-differs:clock-crosses-midnight", fmt.Sprintf("clock crossing midnight of %s at its reading #%d (of %d) with week-end day %d: span [%s, %s) err=%v is the documented span of none of the readings", day.Format("2006-01-02"), firstAfter+1, len(readings), wd, b.Format(time.RFC3339), e.Format(time.RFC3339), err), map[string]any{"day": day.Format("2006-01-02"), "weekend": wd, "firstAfter": firstAfter})
					}
				}
				res.Class("span/clock-crosses-midnight")
			}
		}
		CounterTime = saved
	}
	// (a3) the rotation timer: a process that opens its file d before the recorded end arms its timer for the
	// end, not later, whatever d is (increments made after the end must land in the next span's file).
	if p.Mine(2) {
		os.WriteFile(wfile, []byte("3\n"), 0o666)
		day := time.Date(2024, 2, 26, 0, 0, 0, 0, time.UTC)
		_, end := ref.WeekSpan(day, time.Weekday(3))
		savedTimers := vtime.NoTimers
		vtime.NoTimers = true
		for _, before := range []time.Duration{6 * 24 * time.Hour, time.Hour, 61 * time.Second, 60 * time.Second, 59 * time.Second, time.Second, time.Millisecond, 1} {
			w.now = end.Add(-before)
			vtime.NowHook = func() time.Time { return w.now }
			vtime.Delays = nil
			f := &file{buildInfo: zzvBuildInfo()}
			f.rotate()
			vtime.NowHook = nil
			res.Evaluations++
			if m := f.current.Load(); m != nil {
				name := m.f.Name()
				m.close()
				os.Remove(name)
			}
			if len(vtime.Delays) != 1 {
				res.Violate("rotation-timer-count", fmt.Sprintf("opening %v before the end arms %d timers", before, len(vtime.Delays)), nil)
			} else if d := vtime.Delays[0]; d > before || d <= 0 {
				res.Violate("rotation-timer-after-end", fmt.Sprintf("a process that opens its counter file %v before the recorded end arms its rotation timer for %v: until it fires, increments made after the end still land in the old file", before, d), nil)
			}
			res.Class("rotation-timer")
		}
		vtime.NoTimers = savedTimers
	}
	// (b) malformed settings.
	if p.Mine(0) {
		for _, setting := range []string{"<absent>", "", "7", "9", "x", "-1", "3\n", " 3", "3 ", "33", "\n", "3\n4\n", "６", "0x3"} {
			for day := time.Date(2023, 12, 30, 0, 0, 0, 0, time.UTC); day.Before(time.Date(2024, 3, 3, 0, 0, 0, 0, time.UTC)); day = day.AddDate(0, 0, 1) {
				if setting == "<absent>" {
					os.Remove(wfile)
				} else {
					os.WriteFile(wfile, []byte(setting), 0o666)
				}
				w.now = day.Add(13 * time.Hour)
				var b, e time.Time
				var err error
				func() {
					defer func() {
						if r := recover(); r != nil {
							err = fmt.Errorf("panic: %v", r)
							res.Violate("span-panic", fmt.Sprintf("counterSpan panics with setting %q: %v", setting, r), nil)
						}
					}()
					b, e, err = zzvSpanNow()
				}()
				res.Evaluations++
				if err != nil {
					res.Class("setting/" + setting + "/error")
					continue
				}
				days := e.Sub(b) / (24 * time.Hour)
				if !b.Equal(day) || e.Sub(b)%(24*time.Hour) != 0 || days < 1 || days > 7 || e.Hour() != 0 {
					res.Violate("span-malformed-setting", fmt.Sprintf("setting %q at %s: span [%s, %s) is not a 1-7 day midnight-to-midnight span from today", setting, day.Format("2006-01-02"), b.Format(time.RFC3339), e.Format(time.RFC3339)), nil)
				}
				if t := strings.TrimSpace(setting); len(t) == 1 && t[0] >= '0' && t[0] <= '6' {
					_, re := ref.WeekSpan(w.now, time.Weekday(t[0]-'0'))
					if !e.Equal(re) {
						res.Violate("span-differs", fmt.Sprintf("setting %q at %s: end %s, want %s", setting, day.Format("2006-01-02"), e.Format(time.RFC3339), re.Format(time.RFC3339)), nil)
					}
				}
				res.Class("setting/" + setting + "/ok")
			}
		}
	}
	// (c) real files.
	first, last := time.Date(2023, 12, 1, 0, 0, 0, 0, time.UTC), time.Date(2024, 4, 30, 0, 0, 0, 0, time.UTC)
	if p.Thorough() {
		last = time.Date(2025, 3, 31, 0, 0, 0, 0, time.UTC)
	}
	for wd := 0; wd < 7; wd++ {
		for day := first; !day.After(last); day = day.AddDate(0, 0, 1) {
			idx++
			if !p.Mine(idx) {
				continue
			}
			zzvC09File(res, base, day, wd)
		}
	}
	res.Transitions = res.Evaluations
	res.States = res.Evaluations
	res.Validated = res.Evaluations
	res.Write()
}

func zzvC09File(res *vrep.Result, base string, day time.Time, wd int) {
	w := zzvNewWorld(base, "")
	defer w.teardown()
	os.WriteFile(filepath.Join(telemetry.Default.LocalDir(), "weekends"), []byte(fmt.Sprintf("%d\n", wd)), 0o666)
	fail := func(sig, format string, args ...any) {
		res.Violate(sig, fmt.Sprintf(format, args...)+fmt.Sprintf(" [day %s, week-end day %d]", day.Format("2006-01-02"), wd), map[string]any{"day": day.Format("2006-01-02"), "weekend": wd})
	}
	w.now = day.Add(15 * time.Hour)
	rb, re := ref.WeekSpan(w.now, time.Weekday(wd))
	f := w.newProc()
	c := w.newCounter(f, "a")
	exp := f.rotate1()
	res.Evaluations++
	m := f.current.Load()
	if m == nil {
		fail("open-failed", "open failed: %v", f.err)
		return
	}
	if !exp.Equal(re) {
		fail("expiry-differs", "rotate1 reports expiry %s, want %s", exp.Format(time.RFC3339), re.Format(time.RFC3339))
	}
	name1 := filepath.Base(m.f.Name())
	if !strings.Contains(name1, "-"+rb.Format("2006-01-02")+".v1.count") {
		fail("file-name-date", "file %s does not carry the begin date %s", name1, rb.Format("2006-01-02"))
	}
	c.Add(1)
	data, _ := os.ReadFile(m.f.Name())
	cf, err := ref.DecodeCounterFile(data)
	if err != nil {
		fail("file-malformed", "%v", err)
		return
	}
	if cf.Meta["TimeBegin"] != rb.Format(time.RFC3339) || cf.Meta["TimeEnd"] != re.Format(time.RFC3339) {
		fail("meta-span-differs", "metadata TimeBegin=%s TimeEnd=%s, want %s / %s", cf.Meta["TimeBegin"], cf.Meta["TimeEnd"], rb.Format(time.RFC3339), re.Format(time.RFC3339))
	}
	// Increments before the end land in the first file (no rotation is requested
	// before the recorded end: the property only speaks of the rotation at the end).
	w.now = re.Add(-1)
	c.Add(2)
	// The user changes the week-end day while the process runs: the next span follows the new setting.
	wd2 := (wd + 3) % 7
	os.WriteFile(filepath.Join(telemetry.Default.LocalDir(), "weekends"), []byte(fmt.Sprintf("%d\n", wd2)), 0o666)
	// Exactly at the end: the next span's file.
	w.now = re
	f.rotate1()
	m3 := f.current.Load()
	if m3 == nil {
		fail("rotate-failed", "rotation failed: %v", f.err)
		return
	}
	name2 := filepath.Base(m3.f.Name())
	if name2 == name1 || !strings.Contains(name2, "-"+re.Format("2006-01-02")+".v1.count") {
		fail("not-rotated-at-end", "at the recorded end the file is %s (was %s), want one named for %s", name2, name1, re.Format("2006-01-02"))
	}
	c.Add(4)
	old, _ := os.ReadFile(filepath.Join(telemetry.Default.LocalDir(), name1))
	nw, _ := os.ReadFile(filepath.Join(telemetry.Default.LocalDir(), name2))
	cfo, err1 := ref.DecodeCounterFile(old)
	cfn, err2 := ref.DecodeCounterFile(nw)
	if err1 != nil || err2 != nil {
		fail("file-malformed", "%v %v", err1, err2)
		return
	}
	if cfo.Values["a"] != 3 || cfn.Values["a"] != 4 {
		fail("increments-in-wrong-file", "old file holds %d (want 3), new file holds %d (want 4)", cfo.Values["a"], cfn.Values["a"])
	}
	_, re2 := ref.WeekSpan(re, time.Weekday(wd2))
	if cfn.Meta["TimeBegin"] != re.Format(time.RFC3339) || cfn.Meta["TimeEnd"] != re2.Format(time.RFC3339) {
		fail("meta-span-differs", "next file TimeBegin=%s TimeEnd=%s, want %s / %s", cfn.Meta["TimeBegin"], cfn.Meta["TimeEnd"], re.Format(time.RFC3339), re2.Format(time.RFC3339))
	}
	res.Class(fmt.Sprintf("file/%02d/ahead=%d", int(day.Month()), int(re.Sub(rb)/(24*time.Hour))))
	if res.Evaluations%1500 == 2 {
		res.Sample(6, map[string]any{"leg": "file", "day": day.Format("2006-01-02"), "weekend": wd, "file": name1, "next_file": name2})
	}
}
