//go:build verif

package counter

// Race-detector side pass (supporting evidence only, see DESIGN.md 2.8): the
// bodies of the C03 scenarios that do not remap are run free-running (real
// goroutines, no controlled scheduler) so that the race detector, which is
// blind under the cooperative scheduler, can see unsynchronised accesses.

import (
	"os"
	"sync"
	"testing"

	"golang.org/x/telemetry/internal/verifshim/vos"
)

func TestVerifRacePass(t *testing.T) {
	base, err := os.MkdirTemp("/dev/shm", "verif-race-")
	if err != nil {
		base = t.TempDir()
	}
	defer os.RemoveAll(base)
	vos.Poison = false
	for iter := 0; iter < 300; iter++ {
		for _, scn := range []struct {
			preOpen bool
			names   []string
			ops     [][]int // per goroutine: counter indexes to add to; -1 = open
		}{
			{false, []string{"a"}, [][]int{{0}, {0}, {-1}}},
			{false, []string{"a", "b", "c"}, [][]int{{0}, {1}, {2}, {-1}}},
			{true, []string{"a"}, [][]int{{0}, {0}, {0}}},
			{false, []string{"a", "a"}, [][]int{{0}, {1}, {-1}}},
		} {
			w := zzvNewWorld(base, "")
			vos.Poison = false
			f := w.newProc()
			var cs []*Counter
			for _, n := range scn.names {
				cs = append(cs, w.newCounter(f, n))
			}
			if scn.preOpen {
				f.rotate1()
				cs[0].Add(1)
			}
			var wg sync.WaitGroup
			for _, ops := range scn.ops {
				ops := ops
				wg.Add(1)
				go func() {
					defer wg.Done()
					for _, op := range ops {
						if op < 0 {
							f.rotate1()
						} else {
							cs[op].Add(1)
						}
					}
				}()
			}
			wg.Wait()
			w.teardown()
		}
	}
}
