//go:build verif

package counter

// C04 — processes sharing a counter file never corrupt it, even when killed.
// Engine E1 with emulated processes: independent *file values (own mapping,
// own counters) on one telemetry directory; scheduling points at every
// atomic operation on the shared pages and every file-system call; a kill of
// the running process is a scheduler choice.

import (
	"fmt"
	"os"
	"path/filepath"
	"strings"
	"testing"

	"golang.org/x/telemetry/internal/telemetry"
	"golang.org/x/telemetry/internal/verifshim/ref"
	"golang.org/x/telemetry/internal/verifshim/sched"
	"golang.org/x/telemetry/internal/verifshim/vatomic"
	"golang.org/x/telemetry/internal/verifshim/vos"
	"golang.org/x/telemetry/internal/verifshim/vrep"
	"golang.org/x/telemetry/internal/verifshim/vsync"
)

type zzvOp4 struct {
	kind string // open | add
	name string
	n    uint64
}

type zzvC04Scn struct {
	name     string
	pre      []string // records present in the file before the processes start
	fill     int      // 4000-byte filler records (drives the next big record to page 2)
	preOpen  bool     // processes have the file open before the race starts
	tailPad  bool     // pad so that a 16-byte name's record would end exactly at the page end
	procs    [][]zzvOp4
	thorough bool
}

// zzvCollide returns two short names that hash to the same bucket.
func zzvCollide() (string, string) {
	first := "k0"
	for i := 1; ; i++ {
		n := fmt.Sprintf("k%d", i)
		if ref.FNV(n) == ref.FNV(first) {
			return first, n
		}
	}
}

func zzvC04Scenarios() []zzvC04Scn {
	k1, k2 := zzvCollide()
	if hash(k1) != hash(k2) || k1 == k2 {
		panic("collision search failed")
	}
	open := zzvOp4{kind: "open"}
	A := func(n string, v uint64) zzvOp4 { return zzvOp4{"add", n, v} }
	big := zzvBig('B')
	big2 := zzvBig('C')
	// a short name and two 4000-byte names that share one bucket
	kk := zzvCollideN(1)
	kk3 := zzvCollideN(3)[1:]
	var bigK []string
	for i := 0; len(bigK) < 2; i++ {
		n := fmt.Sprintf("K%05d/%s", i, strings.Repeat("k", 4000))[:4000]
		if ref.FNV(n) == ref.FNV(kk[0]) {
			bigK = append(bigK, n)
		}
	}
	return []zzvC04Scn{
		{name: "P1-create-race-same-name", procs: [][]zzvOp4{{open, A("a", 1)}, {open, A("a", 2)}}},
		{name: "P2-same-name-open", preOpen: true, procs: [][]zzvOp4{{A("a", 1)}, {A("a", 2)}}},
		{name: "P3-colliding-names", preOpen: true, pre: []string{"z"}, procs: [][]zzvOp4{{A(k1, 1)}, {A(k2, 2)}}},
		{name: "P4-different-buckets", preOpen: true, procs: [][]zzvOp4{{A("a", 1)}, {A("b", 2)}}},
		{name: "P5-existing-record", preOpen: true, pre: []string{"a"}, procs: [][]zzvOp4{{A("a", 1)}, {A("a", 2), A("a", 4)}}},
		{name: "P6-extend-race-bigname", preOpen: true, fill: 3, procs: [][]zzvOp4{{A(big, 1)}, {A(big, 2)}}},
		{name: "P7-extend-race-two-bignames", preOpen: true, fill: 3, procs: [][]zzvOp4{{A(big, 1)}, {A(big2, 2)}}},
		{name: "P8-extend-vs-small", preOpen: true, fill: 3, procs: [][]zzvOp4{{A(big, 1)}, {A("a", 2), A("b", 4)}}},
		{name: "P12-pagetail-record-vs-extend", preOpen: true, fill: 3, tailPad: true, procs: [][]zzvOp4{{A("tail-name-16byte", 1)}, {A(big, 2)}}},
		{name: "P9-three-procs-same-name", preOpen: true, procs: [][]zzvOp4{{A("a", 1)}, {A("a", 2)}, {A("a", 4)}}, thorough: true},
		{name: "P10-three-procs-colliding", preOpen: true, procs: [][]zzvOp4{{A(k1, 1)}, {A(k2, 2)}, {A(k1, 4)}}, thorough: true},
		{name: "P11-create-race-three", procs: [][]zzvOp4{{open, A("a", 1)}, {open, A("b", 2)}, {open, A("a", 4)}}, thorough: true},
		// Two records join proc1's chain while it is between reserving and linking: an older one inside its
		// mapping that is linked last (so it is scanned first), and one in a new page, scanned second
		{name: "P14-second-new-chain-element-beyond-mapping", preOpen: true, fill: 3, thorough: true,
			procs: [][]zzvOp4{{A(kk3[0], 1)}, {A(kk3[1], 2)}, {A(bigK[0], 4)}}},
		// A's colliding chain grows twice beyond A's mapping while A is between reserving and linking its
		// record: once into page 2 (B's first big record), and, after A's retry, into page 3
		{name: "P13-chain-head-beyond-mapping-twice", preOpen: true, fill: 3, thorough: true,
			procs: [][]zzvOp4{{A(kk[0], 1)}, {A(bigK[0], 2), A(zzvBig('D')[:4000], 4), A(zzvBig('E')[:4000], 8), A(zzvBig('F')[:4000], 16), A(bigK[1], 32)}}},
	}
}

type zzvC04Run struct {
	w        *zzvWorld
	scn      *zzvC04Scn
	procCtrs [][]*Counter
	adds     []uint64            // per process: sum of increments begun
	returned []uint64            // per process: sum of increments whose Add returned
	cellBy   []uint64            // per process: sum of completed cell additions
	cell     map[string]uint64   // file\x00name -> value according to completed additions to that counter
	curName  []string            // per process: name of the counter its current Add targets
	limit    map[string]uint32   // per file: last limit seen
	errs     []string
	deferred int
}

func (r *zzvC04Run) fail(format string, args ...any) {
	m := fmt.Sprintf(format, args...)
	for _, e := range r.errs {
		if e == m {
			return
		}
	}
	r.errs = append(r.errs, m)
}

// stepOracle decodes the shared file with the independent reader.
func (r *zzvC04Run) stepOracle(kind string) {
	if strings.HasPrefix(kind, "load") || kind == "lock" || kind == "once" || kind == "start" {
		return
	}
	dir := telemetry.Default.LocalDir()
	ents, _ := os.ReadDir(dir)
	for _, e := range ents {
		if !strings.HasSuffix(e.Name(), ".count") {
			continue
		}
		path := filepath.Join(dir, e.Name())
		data, err := os.ReadFile(path)
		if err != nil || len(data) < ref.CFPage {
			continue // being created
		}
		cf, err := ref.DecodeCounterFile(data)
		if err != nil {
			r.fail("malformed counter file: %v", err)
			continue
		}
		if cf.Limit < r.limit[path] {
			r.fail("allocation limit decreased from %#x to %#x", r.limit[path], cf.Limit)
		}
		r.limit[path] = cf.Limit
		for _, rec := range cf.Records {
			want := r.cell[path+"\x00"+rec.Name]
			if rec.Value != want {
				r.fail("counter %q holds %d but the completed additions to it sum to %d", zzvShort(rec.Name), rec.Value, want)
			}
		}
		for k, want := range r.cell {
			if strings.HasPrefix(k, path+"\x00") && want != 0 {
				if _, ok := cf.Values[k[len(path)+1:]]; !ok {
					r.fail("counter %q has no reachable record although additions summing to %d completed", zzvShort(k[len(path)+1:]), want)
				}
			}
		}
	}
	for p := range r.procCtrs {
		pend := uint64(0)
		for _, c := range r.procCtrs[p] {
			pend += zzvExtra(c)
		}
		if r.cellBy[p]+pend > r.adds[p] {
			r.fail("process %d: persisted %d + pending %d exceeds its increments begun %d", p, r.cellBy[p], pend, r.adds[p])
		}
	}
}

func zzvC04Scenario(base string, scn *zzvC04Scn) *sched.Scenario {
	return &sched.Scenario{
		Name:      scn.name,
		MaxSteps:  6000,
		AllowKill: true,
		Setup: func(x *sched.Exec) {
			vos.Points, vos.Faults = true, false
			vatomic.SharedOnly, vsync.PrivateLocks = vos.IsMapped, true
			w := zzvNewWorld(base, "")
			r := &zzvC04Run{w: w, scn: scn, cell: map[string]uint64{}, limit: map[string]uint32{}}
			x.Scratch = r
			// Pre-create the file through a set-up process.
			if len(scn.pre) > 0 || scn.fill > 0 {
				f0 := &file{buildInfo: zzvBuildInfo()}
				f0.rotate1()
				for i := 0; i < scn.fill; i++ {
					if f0.lookup(fmt.Sprintf("filler%d/%s", i, strings.Repeat("f", 4000-8))).count == nil {
						panic("set-up: filler failed")
					}
				}
				for _, n := range scn.pre {
					f0.lookup(n).count.Store(5)
				}
				if scn.tailPad {
					// Advance the limit to 32 bytes before the end of page 1 with records of
					// 48-byte names (64-byte records) and one final adjusting record.
					m0 := f0.current.Load()
					for i := 0; ; i++ {
						limit := m0.load32(m0.hdrLen + limitOff)
						rest := int(pageSize - 32 - limit)
						if rest <= 0 {
							if rest < 0 {
								panic("set-up: overshot the page tail")
							}
							break
						}
						n := 48
						if rest < 64+32 {
							n = rest - 16
						}
						name := fmt.Sprintf("pad%03d/%s", i, strings.Repeat("p", 64))[:n]
						if f0.lookup(name).count == nil {
							panic("set-up: pad failed")
						}
					}
				}
				path := f0.current.Load().f.Name()
				f0.current.Load().close()
				data, _ := os.ReadFile(path)
				cf, err := ref.DecodeCounterFile(data)
				if err != nil {
					panic("set-up file malformed: " + err.Error())
				}
				for _, rec := range cf.Records {
					r.cell[path+"\x00"+rec.Name] = rec.Value
				}
			}
			np := len(scn.procs)
			r.adds, r.returned, r.cellBy = make([]uint64, np), make([]uint64, np), make([]uint64, np)
			r.curName = make([]string, np)
			r.procCtrs = make([][]*Counter, np)
			for pi, ops := range scn.procs {
				pi, ops := pi, ops
				f := w.newProc()
				if scn.preOpen {
					f.rotate1()
					if f.current.Load() == nil {
						panic(fmt.Sprintf("set-up: open failed: %v", f.err))
					}
				}
				byName := map[string]*Counter{}
				for _, op := range ops {
					if op.kind == "add" && byName[op.name] == nil {
						c := w.newCounter(f, op.name)
						byName[op.name] = c
						r.procCtrs[pi] = append(r.procCtrs[pi], c)
					}
				}
				x.Go(fmt.Sprintf("proc%d", pi), func() {
					for _, op := range ops {
						switch op.kind {
						case "open":
							f.rotate1()
						case "add":
							r.adds[pi] += op.n
							r.curName[pi] = op.name
							sched.MarkOp()
							w.begun[op.name] += op.n
							byName[op.name].Add(int64(op.n))
							r.returned[pi] += op.n
						}
					}
				})
			}
			vatomic.AfterCAS64 = func(addr uintptr, old, new uint64, ok bool) {
				if !ok {
					return
				}
				file, off, found := vos.Locate(addr)
				if !found {
					return // a state word on the Go heap
				}
				_ = off
				r.cell[file+"\x00"+r.curName[sched.Current().ID]] += new - old
				r.cellBy[sched.Current().ID] += new - old
			}
			x.OnStep = func(x *sched.Exec) { r.stepOracle(x.LastKind) }
			x.StateKey = func() uint64 {
				h := uint64(0)
				for _, c := range w.ctrs {
					h = h*1099511628211 ^ uint64(c.state.load())
				}
				for k, v := range r.cell {
					h ^= zzvHash(k, v)
				}
				return h
			}
		},
		Check: func(x *sched.Exec) ([]string, uint64) {
			r := x.Scratch.(*zzvC04Run)
			r.stepOracle("final")
			v := append([]string{}, r.errs...)
			for _, t := range x.Threads {
				if t.Panic != nil {
					v = append(v, fmt.Sprintf("panic in surviving process %s: %v @ %s", t.Name, t.Panic, zzvPanicSite(t.PanicStack)))
				}
			}
			if x.Deadlock {
				v = append(v, "deadlock: a surviving process is blocked")
			}
			if x.Horizon {
				v = append(v, fmt.Sprintf("step horizon %d reached: a surviving process does not return", x.MaxSteps))
			}
			killed := 0
			var pendAll uint64
			for p, t := range x.Threads {
				if sched.WasKilled(t) {
					killed++
					continue
				}
				if t.Panic != nil || x.Deadlock || x.Horizon {
					continue
				}
				pend := uint64(0)
				for _, c := range r.procCtrs[p] {
					pend += zzvExtra(c)
					if s := c.state.load(); s.readers() != 0 {
						v = append(v, fmt.Sprintf("process %d: state word left with readers=%#x", p, s.readers()))
					}
				}
				pendAll += pend
				if r.cellBy[p]+pend != r.returned[p] {
					v = append(v, fmt.Sprintf("survivor %d: persisted %d + pending %d != its increments %d", p, r.cellBy[p], pend, r.returned[p]))
				}
				if pend != 0 && r.w.procs[p].current.Load() != nil {
					r.deferred++
					v = append(v, fmt.Sprintf("survivor %d returned from Add with %d left in memory although its counter file is open: another process made its record creation fail", p, pend))
				}
			}
			var tot uint64
			for _, c := range r.cell {
				tot += c
			}
			return v, zzvHash(tot, pendAll, killed, len(v))
		},
		Teardown: func(x *sched.Exec) {
			vatomic.AfterCAS64 = nil
			vatomic.SharedOnly, vsync.PrivateLocks = nil, false
			x.Scratch.(*zzvC04Run).w.teardown()
		},
	}
}

func zzvSigC04(f sched.Found, msg string) string {
	base := "other"
	switch {
	case strings.HasPrefix(msg, "use-after-unmap"):
		return zzvSigBase(msg)
	case strings.HasPrefix(msg, "malformed"):
		base = "file-malformed"
		if i := strings.Index(msg, ": "); i >= 0 {
			rest := msg[i+2:]
			// keep the clause, drop numbers
			for _, kw := range []string{"two reachable records", "reachable twice", "out of range", "overlap", "page end", "beyond", "hashes to", "name length", "bad limit", "dead marker", "bad header", "bad prefix"} {
				if strings.Contains(rest, kw) {
					base += ":" + strings.ReplaceAll(kw, " ", "-")
				}
			}
		}
	case strings.Contains(msg, "left in memory although its counter file is open"):
		base = "survivor-left-unpersisted"
	case strings.HasPrefix(msg, "allocation limit decreased"):
		base = "limit-decreased"
	case strings.HasPrefix(msg, "counter "):
		base = "value-differs-from-completed-additions"
	case strings.Contains(msg, "exceeds its increments begun"):
		base = "over-count"
	case strings.HasPrefix(msg, "panic"):
		base = "panic"
		if i := strings.LastIndex(msg, "@ "); i >= 0 {
			base = "panic@" + msg[i+2:]
		}
	case strings.HasPrefix(msg, "deadlock"):
		base = "survivor-blocked"
	case strings.HasPrefix(msg, "step horizon"):
		base = "survivor-no-return"
	case strings.HasPrefix(msg, "survivor"):
		base = "survivor-sum-mismatch"
	case strings.Contains(msg, "state word left"):
		base = "state-word-not-quiescent"
	}
	return base + ":" + zzvFamily(f.Scenario)
}

func TestVerifC04(t *testing.T) {
	p := vrep.Env()
	res := vrep.New("C04", p)
	defer res.Guard()
	base, cleanup := vrep.Scratch("c04")
	defer cleanup()
	res.Rule = "E1: all schedules of 2-3 emulated processes (independent handles and mappings of one file) at atomic-operation and file-system-call granularity, up to the stated preemption and kill bounds; classes are distinct end states (sum of cells, pending, kills)"
	res.Assumptions = []string{
		"processes are emulated by independent file handles and mappings in one address space; cross-process atomicity on the shared pages is the hardware's",
		"a kill stops a process between two hooked operations; its deferred functions have no effect",
		"sequentially consistent interleavings",
	}
	if p.Replay != "" {
		zzvReplay(p.Replay, func(name string) *sched.Scenario {
			for _, s := range zzvC04Scenarios() {
				if s.name == name {
					s := s
					return zzvC04Scenario(base, &s)
				}
			}
			return nil
		})
		return
	}
	bounds := []sched.Bounds{{}, {Preempt: 1}, {Preempt: 2}, {Preempt: 1, Kill: 1}, {Preempt: 2, Kill: 1}}
	if p.Thorough() {
		bounds = append(bounds, sched.Bounds{Preempt: 3, Kill: 1}, sched.Bounds{Preempt: 2, Kill: 2})
	}
	only := os.Getenv("VERIF_ONLY") // debugging aid: explore one scenario (the result is then marked not exhaustive)
	for _, scn := range zzvC04Scenarios() {
		scn := scn
		if only != "" {
			if !strings.Contains(scn.name, only) {
				continue
			}
			res.Exhaustive = false
			res.Note("VERIF_ONLY=%s: only matching scenarios were explored", only)
		} else if scn.thorough && !p.Thorough() {
			continue
		}
		for _, b := range bounds {
			sc := zzvC04Scenario(base, &scn)
			ex := &sched.Explorer{Sc: sc, Bounds: b, Deadline: p.Deadline, Shard: p.Shard, NShards: p.NShards}
			st := ex.Explore()
			zzvRecord(res, st, zzvSigC04)
			if !st.Exhaustive {
				break
			}
		}
	}
	res.Write()
}
