//go:build verif

package telemetry

// C02 (mode-file leg): setting a valid mode then reading it back yields the
// same mode and date; an invalid mode is rejected leaving the file unchanged;
// reading arbitrary mode-file bytes never fails and anything but the three
// modes is reported as such (callers treat it as local).

import (
	"bytes"
	"fmt"
	"os"
	"testing"
	"time"

	"golang.org/x/telemetry/internal/verifshim/vrep"
)

func TestVerifC02Mode(t *testing.T) {
	p := vrep.Env()
	res := vrep.New("C02", p)
	defer res.Guard()
	base, _ := vrep.Scratch("c02m")
	res.Rule = "SetModeAsOf/Mode round trip for 3 modes x every day 2023-01-01..2028-12-31 x {00:00, 23:59:59.999999999} x {UTC,+14:00,-12:00}; invalid mode strings leave the file bytes unchanged"
	dir, _ := os.MkdirTemp(base, "m")
	d := NewDir(dir)
	zones := []*time.Location{time.UTC, time.FixedZone("+14", 14*3600), time.FixedZone("-12", -12*3600)}
	idx := 0
	for day := time.Date(2023, 1, 1, 0, 0, 0, 0, time.UTC); day.Year() < 2029; day = day.AddDate(0, 0, 1) {
		idx++
		if !p.Mine(idx) {
			continue
		}
		for _, mode := range []string{"on", "off", "local"} {
			for _, z := range zones {
				for _, tod := range []time.Duration{0, 24*time.Hour - 1} {
					y, m, dd := day.Date()
					at := time.Date(y, m, dd, 0, 0, 0, 0, z).Add(tod)
					res.Evaluations++
					if err := d.SetModeAsOf(mode, at); err != nil {
						res.Violate("setmode-failed", fmt.Sprintf("SetModeAsOf(%q, %s): %v", mode, at, err), nil)
						continue
					}
					gm, gd := d.Mode()
					want := at.UTC().Format("2006-01-02")
					if gm != mode || gd.Format("2006-01-02") != want || gd.Location() != time.UTC {
						res.Violate("mode-roundtrip", fmt.Sprintf("SetModeAsOf(%q, %s) then Mode() = (%q, %s), want (%q, %s)", mode, at.Format(time.RFC3339Nano), gm, gd.Format(time.RFC3339), mode, want), map[string]any{"mode": mode, "at": at.Format(time.RFC3339Nano)})
					}
				}
			}
		}
		res.Class(fmt.Sprintf("roundtrip/%d-%02d", day.Year(), int(day.Month())))
	}
	if p.Mine(0) {
		for _, prior := range []string{"", "on 2024-01-01", "local", "garbage"} {
			for _, bad := range []string{"", "ON", "onx", "on off", "o n", "0", "local\x00", "enable", "on\x00", "true"} {
				if prior == "" {
					os.Remove(d.ModeFile())
				} else {
					os.WriteFile(d.ModeFile(), []byte(prior), 0o666)
				}
				before, berr := os.ReadFile(d.ModeFile())
				err := d.SetModeAsOf(bad, time.Date(2024, 5, 5, 0, 0, 0, 0, time.UTC))
				after, aerr := os.ReadFile(d.ModeFile())
				res.Evaluations++
				if err == nil {
					res.Violate("invalid-mode-accepted", fmt.Sprintf("SetMode(%q) accepted", bad), nil)
				}
				if !bytes.Equal(before, after) || (berr == nil) != (aerr == nil) {
					res.Violate("invalid-mode-changed-file", fmt.Sprintf("SetMode(%q) changed the mode file from %q to %q", bad, before, after), nil)
				}
				res.Class("invalid/" + prior)
			}
		}
		// Reading arbitrary contents never fails.
		for _, content := range []string{"", "on", "off", "local", "on 2024-01-01", "on  2024-01-01", "ON", "\xff\xfe", "off\n", " on ", "on 2024-13-45", "a b c", "\n", " ", "on 2024-01-01 extra"} {
			os.WriteFile(d.ModeFile(), []byte(content), 0o666)
			func() {
				defer func() {
					if r := recover(); r != nil {
						res.Violate("mode-read-panic", fmt.Sprintf("Mode() panics on %q: %v", content, r), nil)
					}
				}()
				m, _ := d.Mode()
				res.Evaluations++
				res.Class("read/" + m)
			}()
		}
	}
	res.Transitions = res.Evaluations
	res.States = res.Evaluations
	res.Validated = res.Evaluations
	res.Write()
}
