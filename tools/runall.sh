#!/bin/bash
# runall.sh [quick|thorough] — runs every registered check in sequence and prints a one-line summary each.
cd /verif
export GOFLAGS=-mod=mod GOPROXY=off GOSUMDB=off GOTOOLCHAIN=local
tier=${1:-quick}
for id in C01 C02 C03 C04 C05 C06 C07 C08 C09 C10 C11 C12 C13 C14 C15 C16 C17 C18 C19; do
  start=$(date +%s)
  out=$(./bin/vcheck $id $tier 2>&1); code=$?
  echo "$id exit=$code $(($(date +%s)-start))s $(echo "$out" | tail -1 | cut -c1-180)"
  echo "$out" | grep -E "^(VIOLATION|KNOWN-FINDING)" | cut -c1-200
done
