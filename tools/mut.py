#!/usr/bin/env python3
"""mut.py FILE OLD NEW CHECK[,CHECK...] [--tests PKG]  — apply one textual mutation to /repo (never committed),
run the given checks (quick), report which detect it, and restore the file."""
import subprocess, sys, os
f, old, new, checks = sys.argv[1:5]
pkg = sys.argv[6] if len(sys.argv) > 6 and sys.argv[5] == '--tests' else None
path = os.path.join('/repo', f)
src = open(path).read()
if src.count(old) != 1:
    print(f"MUTANT-ERROR: pattern occurs {src.count(old)} times in {f}"); sys.exit(2)
env = dict(os.environ, GOFLAGS='-mod=mod', GOPROXY='off', GOSUMDB='off', GOTOOLCHAIN='local')
try:
    open(path, 'w').write(src.replace(old, new))
    if pkg:
        r = subprocess.run(['go', 'test', '-vet=off', '-count=1', pkg], cwd='/repo', env=env, capture_output=True, text=True)
        print('repo tests:', 'PASS' if r.returncode == 0 else 'FAIL (mutant is caught by the existing suite)')
    for c in checks.split(','):
        r = subprocess.run(['/verif/bin/vcheck', c, 'quick'], cwd='/verif', env=env, capture_output=True, text=True)
        sigs = [l.strip() for l in r.stdout.splitlines() if l.strip().startswith('sig:')]
        print(f"{c}: exit={r.returncode} {'DETECTED' if r.returncode == 1 else 'missed' if r.returncode == 0 else 'ERROR'} {sigs[:3]}")
        if r.returncode == 2:
            print(r.stderr[-600:])
finally:
    open(path, 'w').write(src)
