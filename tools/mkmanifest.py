#!/usr/bin/env python3
"""Regenerates /verif/MANIFEST.json from the table below (kept next to the checks it describes)."""
import json
props=[json.loads(l) for l in open('/verif/properties.jsonl')]
E1="stateless model checking of the implementation (controlled scheduler, deviation-bounded DFS with iterated bounds)"
E3="bounded-exhaustive enumeration of a finite input/configuration space on the implementation against an independent reference model"
E2="explicit-state breadth-first search over operation sequences executed on the implementation"
claimed={
 "C01": dict(technique=E3+"; "+E2+" for two-run histories",
   text="Every element of a finite product (864 quick / 1296 thorough upload configurations incl. bucket syntax, rates and sample rates x 5 boundary values of X on the 2^-52 grid x 5 local file sets covering 19 counter/stack names, 9 build variants, same-build summation and values up to 2^64-1) is run through the real upload.Run end to end (seams: config download, crypto/rand, HTTP) and the request body, local/<week>.json, local.<week>.json and the marker are compared with a reference implementation of the documented config semantics; two-run histories check reports left over from an earlier run against the config of the run that built them.",
   design_ref="DESIGN.md §3/C01", note="Alphabets as listed in the evidence rule; counter files are written by the reference writer; config, X and server are seams; values >= 2^63 only required to stay non-negative."),
 "C02": dict(technique=E3+"; "+E2+" over mode-change/run histories",
   text="Three legs merged: (uploader) 26+ mode-file contents x opt-in date vs begin x 8 start instants around expiry and the 21-day limit x 3 sampling cases x calendar anchors, plus ready-report layouts, plus all histories of depth <=3 (thorough 4) over {set mode as of d, new expired file, run}, each through the real upload.Run with a model server; (mode file) SetModeAsOf/Mode round trip on every day of 2023..2028 x 3 zones x 2 times of day and rejection of invalid modes; (counter) mode off leaves the directory snapshot unchanged under Add/open/growth/rotation.",
   design_ref="DESIGN.md §3/C02", note="White-space-surrounded mode files are a don't-care between their trimmed reading and local; the server/config/X are seams."),
 "C03": dict(technique=E1,
   text="Exhaustive enumeration, on the real internal/counter code rebuilt from /repo with scheduling points before every atomic operation, lock acquisition and munmap, of all interleavings of 2-4 goroutines (Add on shared/distinct counters, first open, growth remap, weekly rotation, saturation, failing open) up to preemption bound 2 (quick) / 3 (thorough); after every writing step and at the end an independent decoder of the files plus the in-memory state words evaluate the property's clauses; stale-mapping accesses are detected by address poisoning.",
   design_ref="DESIGN.md §3/C03, §2.2, §2.5", note="Bounded: <=4 threads, <=2 operations each, preemption bound as reported; sequentially consistent interleavings of the hooked operations; FS calls of one process are not scheduling points."),
 "C04": dict(technique=E1+" with emulated processes and kill choices",
   text="All schedules of 2 (thorough 3) emulated processes (independent handles and mappings of one real file on /dev/shm) at the granularity of atomic operations on the shared pages and file-system calls, with a kill of the running process as a scheduler choice, within (preemption<=2, kill<=1) quick / (3,1),(2,2) thorough; after every step an independent decoder checks well-formedness, one record per name, limit monotonicity and that each counter equals the completed cell additions to it; survivors must return with persisted+pending equal to their increments.",
   design_ref="DESIGN.md §3/C04, §2.5", note="Processes share one address space; operations on process-private words are not scheduling points (sound partial-order reduction for single-threaded processes)."),
 "C05": dict(technique=E1+" in fault mode; "+E3+" for damage at rest",
   text="(1) every single (quick) / pair (thorough) of non-default answers (errors, short write, stale size, short mapping, foreign unlink/rmdir) of each file-system and mmap call made by open/Add/growth/rotation, enumerated by DFS over fault choice points on the real code; (2) every single and (for selected bases every) pair of 32-bit field overwrites of valid counter files at rest from a boundary-value menu (incl. cycles), then opened and incremented by the real library under a step budget; (3) 13 initial directory states. Oracle: every call returns without panic within the step budget, other counters' values never change, persisted+pending never exceeds the increments.",
   design_ref="DESIGN.md §3/C05", note="Faults are injected at the os/mmap call boundary of the rewritten packages; the uploader's fault leg is part of C07/C08's world, not re-run here; truncation of a mapped file is outside the property."),
 "C06": dict(technique=E3,
   text="Every element of an abstract-file grammar (10 lengths x 3 prefixes x 7 metadata shapes; 13 header-length x 7 limit values on 1- and 2-page files; 9 record sets incl. colliding, stack (ditto-compressed), 4096-byte and NUL names with every single and, for 3 bases (thorough: all), every pair of field overwrites from a boundary menu incl. self- and 2-cycles) is decoded by the real counter.Parse under a step budget on its file-word loads and by an independent strict decoder; well-formed files must yield identical metadata and counts, damaged ones must terminate without panic and report only stored values.",
   design_ref="DESIGN.md §3/C06", note="The reference decoder is the arbiter of well-formedness; arbitrary byte strings are covered through the grammar's class representatives only."),
 "C07": dict(technique=E3+" for file sets and re-runs; "+E1+" for concurrent uploaders",
   text="Sequential: every file set of size 1-2 (thorough 3) over 2 builds x {plain, empty, unparseable, no end time, active, boundary} plus mixed sets x prior report {none, local, ready, uploaded} x mode x start {boundary instant, +1ns}, three consecutive real upload.Run each, compared with reference sums per program build and byte-identity of untouched files and existing reports. Concurrent: all schedules of 2 (thorough 3) uploader runs at file-system-call granularity up to preemption bound 2 (3), with a per-step oracle that a complete report never changes.",
   design_ref="DESIGN.md §3/C07", note="Server always accepts (C08 varies it); one week per concurrent scenario; parsing is process-private (no scheduling points)."),
 "C08": dict(technique=E1+" with kill and server-answer choices, followed by sequential re-runs",
   text="All schedules of 2 (thorough 3) uploader processes at file-system/HTTP-call granularity (request split into server-received and response-delivered), kills and the server's answer {200,400,500,none} as choice points within (preemption<=2, kill<=1, answer deviations<=2) quick, deeper in thorough; per-step oracle that nothing is sent after the uploaded marker exists; end oracle on acknowledged bodies, marker and staged report per answer class; then three real sequential runs against a faithful server decide the liveness clause for kill-free executions.",
   design_ref="DESIGN.md §3/C08", note="Uploaders are threads with separate uploader values on one real directory; 'no answer' means the server did not process the request."),
 "C09": dict(technique=E3+" (complete calendar sweep)",
   text="counterSpan on every day of 2022..2027 (thorough 1990..2049) x 7 week-end settings x 4 times of day against calendar arithmetic with time.Date/AddDate; 14 malformed settings; real open, naming, metadata, Add and rotation exactly at the recorded end on every day of 5 (thorough 16) months x 7 settings; uploader leg: a file with that span is consumed iff end < start for start in {end-1ns,end,end+1ns,end+1d} and reported under the end date.",
   design_ref="DESIGN.md §3/C09", note="The uploader leg uses reference-written files whose metadata the counter leg proves equal to the library's."),
 "C10": dict(technique=E3+" for placement; "+E2+" over operation sequences",
   text="(a) every (32-aligned limit across three page periods + unaligned/zero limits, name length 1..4096) pair through the real place() against the documented rule (6.0M pairs); (b) breadth-first search to depth 4 (thorough 5) over {new counter of 8 name classes incl. 4079/4080/4096-byte and binary names, add to existing, two concurrent writers with a stale mapping}, a fresh emulated process per operation, every state decoded strictly by the independent decoder, compared with the model and byte-for-byte with the file the reference writer produces; (c) metadata cap 512/513 through the real openMapped.",
   design_ref="DESIGN.md §3/C10", note="Reference codec written from the documented layout; little-endian host."),
}
checks=[]
for pid in sorted(claimed):
    c=claimed[pid]
    checks.append({"property_id":pid,"quick_cmd":f"./bin/vcheck {pid} quick","thorough_cmd":f"./bin/vcheck {pid} thorough",
      "evidence_file":f"/verif/evidence/{pid}.json","replay_cmd_template":f"./bin/vcheck {pid} --replay {{path}}","engine":"verif-explorer",
      "level_claimed":{"category":"model_checking","text":c["text"],"design_ref":c["design_ref"]},"level_note":c["note"],"technique":c["technique"]})
m={"version":1,"setup_cmd":"./setup.sh",
 "hooks":{"guard":"verif",
   "enable":"no source hooks in /repo: go test -c -overlay /verif/.build/overlay.json -tags verif -vet=off (overlay = import-rewritten copies of repository files generated by bin/vgen from the current working tree + shim packages of /verif/engine mapped to internal/verifshim + harness files of /verif/harness, each carrying //go:build verif)",
   "baseline_off_cmd":"for m in . godev; do (cd /repo/$m && GOFLAGS=-mod=mod GOPROXY=off GOSUMDB=off go test -vet=off -count=1 -timeout 25m ./...); done",
   "source_commits":[],"add_only":True},
 "engines":[{"name":"verif-explorer","path":"/verif/engine","serves_properties":sorted(claimed),"kind_free_text":"hand-written stateless model checker for Go: cooperative controlled scheduler, deviation-bounded DFS over thread/kill/fault choices (engine/sched), explicit-state BFS and bounded-exhaustive product enumeration against reference models (engine/ref); bound to the real code by a go build overlay generated by cmd/vgen"}],
 "checks":checks,
 "not_applicable":[{"property_id":p["id"],"reason":"check not built yet (work in progress; see DESIGN.md §3 for the plan)"} for p in props if p["id"] not in claimed],
 "notes":"See DESIGN.md. known_findings.txt lists genuine defects recorded rather than repaired (known:) and repaired ones (fixed:). seeded/ holds independently written property-breaking changes and which checks detect them."}
json.dump(m,open('/verif/MANIFEST.json','w'),indent=1)
print(len(checks),"checks claimed")
