#!/bin/bash
# run_seeds.sh [seed-dir-name ...] — applies each seeded change to /repo (never committed), runs the quick
# check(s) of its property (plus any extra check ids listed in meta.json "also_run"), records the result, reverts.
cd /verif
export GOFLAGS=-mod=mod GOPROXY=off GOSUMDB=off GOTOOLCHAIN=local
seeds="$@"; [ -z "$seeds" ] && seeds=$(ls seeded)
for s in $seeds; do
  d=seeded/$s
  prop=$(python3 -c "import json;print(json.load(open('$d/meta.json'))['property'])")
  extra=$(python3 -c "import json;print(' '.join(json.load(open('$d/meta.json')).get('also_run',[])))")
  if ! git -C /repo apply /verif/$d/patch.diff; then echo "$s: PATCH-DOES-NOT-APPLY"; continue; fi
  res=""
  for c in $prop $extra; do
    if grep -q "\"$c\":" cmd/vcheck/main.go; then
      out=$(./bin/vcheck $c quick 2>&1); code=$?
      sig=$(echo "$out" | grep "^  sig:" | head -2 | sed 's/^  sig: //' | tr '\n' ';')
      res="$res $c:exit=$code[$sig]"
    else
      res="$res $c:no-check-yet"
    fi
  done
  git -C /repo checkout -- .
  echo "$s:$res"
done
