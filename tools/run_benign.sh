#!/bin/bash
# run_benign.sh — applies each property-preserving change of /verif/benign in a scratch worktree and runs the
# checks listed in benign/<name>.checks; every check must exit 0 (no alarm on code where the property holds).
cd /verif
export GOFLAGS=-mod=mod GOPROXY=off GOSUMDB=off GOTOOLCHAIN=local
list="$@"; [ -z "$list" ] && list=$(ls benign/*.diff)
for f in $list; do
  n=$(basename $f .diff)
  wt=$(mktemp -d /tmp/benrun.XXXX); bd=$(mktemp -d /tmp/benbuild.XXXX)
  git -C /repo worktree add -q --detach "$wt" HEAD
  git -C "$wt" apply /verif/$f 2>/dev/null || git -C "$wt" apply -3 /verif/$f || { echo "$n: PATCH-DOES-NOT-APPLY"; git -C /repo worktree remove --force "$wt"; continue; }
  res=""
  for c in $(cat benign/$n.checks); do
    out=$(VERIF_REPO=$wt VERIF_BUILD=$bd ${VCHECK:-/verif/bin/vcheck} $c quick 2>&1); code=$?
    res="$res $c:exit=$code"
    [ $code != 0 ] && echo "$out" | grep -E "sig:|vcheck:" | head -3
  done
  git -C /repo worktree remove --force "$wt"; rm -rf "$wt" "$bd"
  echo "$n:$res"
done
