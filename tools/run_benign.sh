#!/bin/bash
# run_benign.sh — applies each property-preserving change of /verif/benign in a scratch worktree and runs the
# checks named in its first line comment; every check must exit 0 (no alarm on code where the property holds).
cd /verif
export GOFLAGS=-mod=mod GOPROXY=off GOSUMDB=off GOTOOLCHAIN=local
declare -A CHECKS=( [b1-counter-refactor]="C03 C04 C05 C10" [b2-upload-sorted-weeks]="C01 C02 C07 C08" [b3-upload-early-marker-check]="C07 C08 C02" [b4-parse-messages-server-status]="C06 C12 C11" )
for f in benign/*.diff; do
  n=$(basename $f .diff)
  wt=$(mktemp -d /tmp/benrun.XXXX); bd=$(mktemp -d /tmp/benbuild.XXXX)
  git -C /repo worktree add -q --detach "$wt" HEAD
  git -C "$wt" apply /verif/$f || { echo "$n: PATCH-DOES-NOT-APPLY"; git -C /repo worktree remove --force "$wt"; continue; }
  res=""
  for c in ${CHECKS[$n]}; do
    out=$(VERIF_REPO=$wt VERIF_BUILD=$bd ${VCHECK:-/verif/bin/vcheck} $c quick 2>&1); code=$?
    res="$res $c:exit=$code"
    [ $code != 0 ] && echo "$out" | grep -E "sig:|vcheck:" | head -3
  done
  git -C /repo worktree remove --force "$wt"; rm -rf "$wt" "$bd"
  echo "$n:$res"
done
