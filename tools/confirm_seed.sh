#!/bin/bash
# confirm_seed.sh <src-dir with patch.diff + demo_test.go> <pkg-dir e.g. internal/counter> <demo -run regexp> <dest /verif/seeded/NAME> <property>
# Confirms in a scratch worktree of /repo's HEAD that: the patch applies and builds, the
# package's existing tests pass with it, the demo fails with it and passes without it.
# On success stores patch, demo and meta.json under the destination.
set -u
export GOFLAGS=-mod=mod GOPROXY=off GOSUMDB=off GOTOOLCHAIN=local
src=$1; pkg=$2; run=$3; dest=$4; prop=$5
wt=$(mktemp -d /tmp/seedwt.XXXX)
git -C /repo worktree add -q --detach "$wt" HEAD || exit 2
cleanup() { git -C /repo worktree remove --force "$wt" >/dev/null 2>&1; rm -rf "$wt"; }
trap cleanup EXIT
cd "$wt" || exit 2
if ! git apply "$src/patch.diff"; then echo "CONFIRM-FAIL: patch does not apply to HEAD"; exit 1; fi
modroot=.
case "$pkg" in godev/*) modroot=godev; pkgrel=./${pkg#godev/};; *) pkgrel=./$pkg;; esac
existing=$(cd $modroot && go test -vet=off -count=1 $pkgrel 2>&1 | tail -3)
echo "existing tests with patch: $existing"
case "$existing" in *FAIL*) echo "CONFIRM-FAIL: existing tests fail with the patch"; exit 1;; esac
cp "$src"/demo_test.go "$pkg/zz_seed_demo_test.go"
with=$(cd $modroot && go test -vet=off -count=1 -run "$run" $pkgrel 2>&1 | tail -15)
git apply -R "$src/patch.diff"
without=$(cd $modroot && go test -vet=off -count=1 -run "$run" $pkgrel 2>&1 | tail -5)
echo "demo with patch: $(echo "$with" | tail -2 | tr '\n' ' ')"
echo "demo without patch: $(echo "$without" | tail -2 | tr '\n' ' ')"
case "$with" in *FAIL*) ;; *) echo "CONFIRM-FAIL: demo does not fail with the patch"; exit 1;; esac
case "$without" in *FAIL*) echo "CONFIRM-FAIL: demo fails without the patch"; exit 1;; esac
case "$without" in *ok*) ;; *) echo "CONFIRM-FAIL: demo did not run ok without the patch"; exit 1;; esac
mkdir -p "$dest"
cp "$src/patch.diff" "$dest/patch.diff"
cp "$src/demo_test.go" "$dest/demo_test.go"
[ -f "$src/NOTES.md" ] && cp "$src/NOTES.md" "$dest/NOTES.md"
python3 - "$dest" "$prop" "$pkg" "$run" "$existing" <<'PY'
import json,sys,subprocess
dest,prop,pkg,run,existing=sys.argv[1:6]
head=subprocess.check_output(['git','-C','/repo','rev-parse','--short','HEAD']).decode().strip()
meta={"property":prop,"confirmed_against_repo_commit":head,
 "demo":{"place_at":pkg+"/zz_seed_demo_test.go","run":f"go test -vet=off -count=1 -run '{run}' ./{pkg}"},
 "confirmed":{"patch_applies_and_builds":True,"existing_package_tests_pass_with_patch":True,"demo_fails_with_patch":True,"demo_passes_without_patch":True},
 "needs_to_manifest":"see NOTES.md","detected_by":[]}
json.dump(meta,open(dest+'/meta.json','w'),indent=1)
PY
echo "CONFIRMED -> $dest"
