#!/bin/bash
# run_seeds_wt.sh [seed ...] — like run_seeds.sh, but evaluates each seeded change in its own scratch worktree of
# /repo's HEAD (VERIF_REPO / VERIF_BUILD), so /repo itself is never modified and long runs on /repo are not disturbed.
cd /verif
export GOFLAGS=-mod=mod GOPROXY=off GOSUMDB=off GOTOOLCHAIN=local
VC=${VCHECK:-/verif/bin/vcheck}
seeds="$@"; [ -z "$seeds" ] && seeds=$(cd seeded; ls -d */ | tr -d /)
for s in $seeds; do
  d=/verif/seeded/$s
  prop=$(python3 -c "import json;print(json.load(open('$d/meta.json'))['property'])")
  extra=$(python3 -c "import json;print(' '.join(json.load(open('$d/meta.json')).get('also_run',[])))")
  wt=$(mktemp -d /tmp/seedrun.XXXX); bd=$(mktemp -d /tmp/seedbuild.XXXX)
  git -C /repo worktree add -q --detach "$wt" HEAD || { echo "$s: WORKTREE-FAILED"; continue; }
  if ! git -C "$wt" apply $d/patch.diff; then echo "$s: PATCH-DOES-NOT-APPLY"; git -C /repo worktree remove --force "$wt"; rm -rf "$bd"; continue; fi
  res=""
  for c in $prop $extra; do
    out=$(VERIF_REPO=$wt VERIF_BUILD=$bd $VC $c quick 2>&1); code=$?
    sig=$(echo "$out" | grep "^  sig:" | head -3 | sed 's/^  sig: //' | tr '\n' ';')
    res="$res $c:exit=$code[$sig]"
    [ $code = 2 ] && echo "$out" | tail -5
  done
  git -C /repo worktree remove --force "$wt"; rm -rf "$wt" "$bd"
  echo "$s:$res"
done
