#!/bin/bash
# racepass.sh — supporting evidence only (DESIGN.md 2.8): runs free-running copies of the non-remapping C03
# scenario bodies and the repository's own concurrent tests under the race detector. Not a registered check.
cd /verif
export GOFLAGS=-mod=mod GOPROXY=off GOSUMDB=off GOTOOLCHAIN=local
./bin/vgen > /dev/null || exit 2
(cd /repo && go test -c -race -overlay /verif/.build/overlay.json -tags verif -vet=off -o /verif/.build/bin/race_counter.test ./internal/counter) || exit 2
(cd /repo/internal/counter && /verif/.build/bin/race_counter.test -test.run '^(TestVerifRacePass|TestParallel|TestConcurrentExtension)$' -test.count=1) 2>&1 | tail -15
(cd /repo && go test -race -vet=off -count=1 -run 'TestRun_Concurrent|TestConcurrentStart' ./internal/upload/ . 2>&1 | tail -5)
