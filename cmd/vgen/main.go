// vgen generates the build overlay that binds the explorer to the real code.
//
// It type-checks the listed repository packages from /repo's current working
// tree, writes copies in which selected references to sync/atomic, sync, os,
// net/http, crypto/rand, os/exec, time and internal/configstore are
// redirected to the shim packages (byte-range edits only: every line keeps
// its number), maps /verif/engine/* into the repository as
// internal/verifshim/*, and adds the in-package harness files of
// /verif/harness/*. Nothing under /repo is written.
package main

import (
	"encoding/json"
	"flag"
	"fmt"
	"go/ast"
	"go/token"
	"go/types"
	"os"
	"path/filepath"
	"sort"
	"strings"

	"golang.org/x/tools/go/packages"
)

const shimBase = "golang.org/x/telemetry/internal/verifshim/"

// rule redirects a package-level identifier.
type rule struct {
	shim string // shim package name (import alias and last path element)
	name string // new identifier ("" = same)
}

// pkgRules: import path -> identifier -> rule.
var pkgRules = map[string]map[string]rule{
	"sync/atomic": {
		"Uint32": {"vatomic", ""}, "Uint64": {"vatomic", ""}, "Pointer": {"vatomic", ""}, "Bool": {"vatomic", ""},
		"StoreUint32": {"vatomic", ""}, "LoadUint32": {"vatomic", ""}, "CompareAndSwapUint32": {"vatomic", ""},
		"StoreUint64": {"vatomic", ""}, "LoadUint64": {"vatomic", ""}, "AddUint64": {"vatomic", ""}, "CompareAndSwapUint64": {"vatomic", ""},
	},
	"sync":    {"Mutex": {"vsync", ""}, "Once": {"vsync", ""}},
	"runtime": {"Gosched": {"vsync", ""}},
	"os": {
		"OpenFile": {"vos", ""}, "ReadFile": {"vos", ""}, "WriteFile": {"vos", ""}, "MkdirAll": {"vos", ""},
		"Remove": {"vos", ""}, "Stat": {"vos", ""}, "ReadDir": {"vos", ""}, "Getenv": {"vos", ""},
		"Setenv": {"vos", ""}, "Environ": {"vos", ""}, "Exit": {"vos", ""}, "Create": {"vos", ""}, "Open": {"vos", ""},
		"Rename": {"vos", ""}, "Mkdir": {"vos", ""}, "RemoveAll": {"vos", ""}, "Executable": {"vos", ""}, "Chtimes": {"vos", ""},
	},
	"net/http":    {"Post": {"vhttp", ""}},
	"crypto/rand": {"Read": {"vrand", ""}},
	"math/rand":   {"Intn": {"vrand", ""}},
	"os/exec":     {"Command": {"vexec", ""}, "Cmd": {"vexec", ""}},
	"time":        {"Now": {"vtime", ""}, "Since": {"vtime", ""}, "Until": {"vtime", ""}, "AfterFunc": {"vtime", ""}},
	"golang.org/x/telemetry/internal/configstore": {"Download": {"vconfigstore", ""}},
	"golang.org/x/telemetry/internal/mmap":        {"Mmap": {"vos", "Mmap"}, "Munmap": {"vos", "Munmap"}},
}

// methodRules: methods of *os.File turned into shim function calls.
var fileMethods = map[string]string{
	"Write": "FWrite", "WriteAt": "FWriteAt", "Stat": "FStat", "Close": "FClose", "Read": "FRead",
	"Sync": "FSync", "Truncate": "FTruncate", "WriteString": "FWriteString",
}

// pkgSpec says which rule groups apply to a repository package.
type pkgSpec struct {
	dir    string   // module directory (where go list runs)
	path   string   // package pattern relative to dir
	groups []string // import paths whose rules apply; "os.File" enables the method rules
}

var specs = []pkgSpec{
	{"/repo", "./internal/counter", []string{"sync/atomic", "sync", "os", "os.File", "golang.org/x/telemetry/internal/mmap", "time", "math/rand", "runtime"}},
	{"/repo", ".", []string{"os", "os.File", "os/exec", "time"}},
	{"/repo", "./internal/upload", []string{"os", "os.File", "net/http", "crypto/rand", "golang.org/x/telemetry/internal/configstore", "sync"}},
	{"/repo", "./internal/telemetry", []string{"os"}},
}

type edit struct {
	start, end int
	text       string
}

func main() {
	out := flag.String("out", "/verif/.build", "output directory")
	repo := flag.String("repo", "/repo", "repository root")
	verif := flag.String("verif", "/verif", "verif root")
	flag.Parse()

	overlay := map[string]string{}
	genDir := filepath.Join(*out, "gen")
	os.RemoveAll(genDir)

	byDir := map[string][]pkgSpec{}
	for _, s := range specs {
		s.dir = strings.Replace(s.dir, "/repo", *repo, 1)
		byDir[s.dir] = append(byDir[s.dir], s)
	}
	for dir, ss := range byDir {
		var pats []string
		for _, s := range ss {
			pats = append(pats, s.path)
		}
		cfg := &packages.Config{
			Mode: packages.NeedName | packages.NeedFiles | packages.NeedCompiledGoFiles | packages.NeedSyntax | packages.NeedTypes | packages.NeedTypesInfo | packages.NeedImports,
			Dir:  dir,
			Env:  append(os.Environ(), "GOFLAGS=-mod=mod", "GOPROXY=off", "GOSUMDB=off", "GOTOOLCHAIN=local"),
		}
		pkgs, err := packages.Load(cfg, pats...)
		if err != nil {
			fatal("load: %v", err)
		}
		if len(pkgs) != len(pats) {
			fatal("load: got %d packages for %d patterns", len(pkgs), len(pats))
		}
		for _, p := range pkgs {
			if len(p.Errors) > 0 {
				fatal("package %s does not type-check: %v", p.PkgPath, p.Errors)
			}
			var spec *pkgSpec
			for i := range ss {
				rel := strings.TrimPrefix(ss[i].path, "./")
				want := "golang.org/x/telemetry"
				if rel != "." && rel != "" {
					want += "/" + rel
				}
				if p.PkgPath == want {
					spec = &ss[i]
				}
			}
			if spec == nil {
				fatal("no spec for %s", p.PkgPath)
			}
			for i, f := range p.Syntax {
				fname := p.CompiledGoFiles[i]
				src, err := os.ReadFile(fname)
				if err != nil {
					fatal("%v", err)
				}
				newSrc, changed := rewrite(p, f, src, spec.groups)
				if !changed {
					continue
				}
				rel, _ := filepath.Rel(*repo, fname)
				dst := filepath.Join(genDir, rel)
				os.MkdirAll(filepath.Dir(dst), 0o755)
				if err := os.WriteFile(dst, newSrc, 0o644); err != nil {
					fatal("%v", err)
				}
				overlay[fname] = dst
			}
		}
	}

	// Engine packages -> internal/verifshim/<pkg>.
	engDirs, _ := os.ReadDir(filepath.Join(*verif, "engine"))
	for _, d := range engDirs {
		if !d.IsDir() {
			continue
		}
		files, _ := os.ReadDir(filepath.Join(*verif, "engine", d.Name()))
		for _, f := range files {
			if strings.HasSuffix(f.Name(), ".go") {
				overlay[filepath.Join(*repo, "internal", "verifshim", d.Name(), f.Name())] = filepath.Join(*verif, "engine", d.Name(), f.Name())
			}
		}
	}
	// Harness files mirror the repository layout.
	hroot := filepath.Join(*verif, "harness")
	filepath.Walk(hroot, func(p string, info os.FileInfo, err error) error {
		if err != nil || info.IsDir() {
			return nil
		}
		rel, _ := filepath.Rel(hroot, p)
		overlay[filepath.Join(*repo, rel)] = p
		return nil
	})

	data, _ := json.MarshalIndent(map[string]any{"Replace": overlay}, "", " ")
	os.MkdirAll(*out, 0o755)
	if err := os.WriteFile(filepath.Join(*out, "overlay.json"), data, 0o644); err != nil {
		fatal("%v", err)
	}
	fmt.Printf("vgen: %d overlay entries\n", len(overlay))
}

func fatal(format string, args ...any) {
	fmt.Fprintf(os.Stderr, "vgen: "+format+"\n", args...)
	os.Exit(2)
}

func rewrite(p *packages.Package, f *ast.File, src []byte, groups []string) ([]byte, bool) {
	enabled := map[string]bool{}
	for _, g := range groups {
		enabled[g] = true
	}
	fset := p.Fset
	off := func(pos token.Pos) int { return fset.Position(pos).Offset }
	var edits []edit
	shimsUsed := map[string]bool{}
	keep := map[string]string{} // local import name -> a declaration keeping the import used

	handled := map[*ast.SelectorExpr]bool{}
	ast.Inspect(f, func(n ast.Node) bool {
		switch n := n.(type) {
		case *ast.CallExpr:
			sel, ok := n.Fun.(*ast.SelectorExpr)
			if !ok || !enabled["os.File"] {
				return true
			}
			s := p.TypesInfo.Selections[sel]
			if s == nil || s.Kind() != types.MethodVal {
				return true
			}
			fn, ok := s.Obj().(*types.Func)
			if !ok || fn.Pkg() == nil || fn.Pkg().Path() != "os" {
				return true
			}
			recv := fn.Type().(*types.Signature).Recv().Type().String()
			if recv != "*os.File" {
				return true
			}
			shimFn, ok := fileMethods[fn.Name()]
			if !ok {
				return true
			}
			// recv.M(args) -> vos.FM(recv, args)
			handled[sel] = true
			edits = append(edits, edit{off(n.Pos()), off(n.Pos()), "vos." + shimFn + "("})
			sep := ", "
			if len(n.Args) == 0 {
				sep = ""
			}
			edits = append(edits, edit{off(sel.X.End()), off(n.Lparen) + 1, sep})
			shimsUsed["vos"] = true
		case *ast.SelectorExpr:
			if handled[n] {
				return true
			}
			id, ok := n.X.(*ast.Ident)
			if !ok {
				return true
			}
			pn, ok := p.TypesInfo.Uses[id].(*types.PkgName)
			if !ok {
				return true
			}
			path := pn.Imported().Path()
			if !enabled[path] {
				return true
			}
			r, ok := pkgRules[path][n.Sel.Name]
			if !ok {
				return true
			}
			newName := r.name
			if newName == "" {
				newName = n.Sel.Name
			}
			edits = append(edits, edit{off(n.Pos()), off(n.End()), r.shim + "." + newName})
			shimsUsed[r.shim] = true
			if _, have := keep[id.Name]; !have {
				obj := p.TypesInfo.Uses[n.Sel]
				switch o := obj.(type) {
				case *types.TypeName:
					if named, ok := o.Type().(*types.Named); ok && named.TypeParams().Len() > 0 {
						keep[id.Name] = fmt.Sprintf("var _ *%s.%s[int]", id.Name, n.Sel.Name)
					} else {
						keep[id.Name] = fmt.Sprintf("var _ *%s.%s", id.Name, n.Sel.Name)
					}
				default:
					keep[id.Name] = fmt.Sprintf("var _ = %s.%s", id.Name, n.Sel.Name)
				}
			}
		}
		return true
	})
	if len(edits) == 0 {
		return nil, false
	}
	// Import the shims right after the last import declaration, on its line.
	lastImp := -1
	for _, d := range f.Decls {
		if gd, ok := d.(*ast.GenDecl); ok && gd.Tok == token.IMPORT {
			lastImp = off(gd.End())
		}
	}
	if lastImp < 0 {
		lastImp = off(f.Name.End())
	}
	var imp strings.Builder
	var names []string
	for s := range shimsUsed {
		names = append(names, s)
	}
	sort.Strings(names)
	for _, s := range names {
		fmt.Fprintf(&imp, "; import %s %q", s, shimBase+s)
	}
	edits = append(edits, edit{lastImp, lastImp, imp.String()})

	sort.SliceStable(edits, func(i, j int) bool { return edits[i].start < edits[j].start })
	var out []byte
	pos := 0
	for _, e := range edits {
		if e.start < pos {
			fatal("overlapping edits in %s", fset.Position(f.Pos()).Filename)
		}
		out = append(out, src[pos:e.start]...)
		out = append(out, e.text...)
		pos = e.end
	}
	out = append(out, src[pos:]...)
	var ks []string
	for _, k := range keep {
		ks = append(ks, k)
	}
	sort.Strings(ks)
	out = append(out, "\n"...)
	for _, k := range ks {
		out = append(out, k+"\n"...)
	}
	return out, true
}
