// vcheck is the driver of every check: generate the overlay from /repo's
// current working tree, build the harness binary, run it in parallel
// workers, merge their results, apply known_findings.jsonl, write the
// evidence file and the replay artefacts, and exit 0 / 1 / 2.
package main

import (
	"context"
	"crypto/sha256"
	"encoding/json"
	"fmt"
	"os"
	"os/exec"
	"path/filepath"
	"runtime"
	"sort"
	"strings"
	"sync"
	"time"
)

const verifDir = "/verif"

// repoDir is the repository under test and buildDir the scratch area for generated files, binaries and
// worker output. Both can be redirected (VERIF_REPO, VERIF_BUILD) to evaluate a scratch worktree without
// touching /repo; evidence and replays then go under the build directory instead of /verif.
var (
	repoDir  = envOr("VERIF_REPO", "/repo")
	buildDir = envOr("VERIF_BUILD", filepath.Join(verifDir, ".build"))
	outRoot  = func() string {
		if os.Getenv("VERIF_BUILD") != "" {
			return os.Getenv("VERIF_BUILD")
		}
		return verifDir
	}()
)

func envOr(k, def string) string {
	if v := os.Getenv(k); v != "" {
		return v
	}
	return def
}

type checkSpec struct {
	modDir   string // directory go test runs in
	pkg      string // package pattern
	test     string // test function
	shards   int    // worker processes (0: number of CPUs)
	quickS   int    // internal deadline per worker, seconds
	thoroS   int
	gomaxp   string // GOMAXPROCS for workers
	extra    []leg  // further legs (other packages) whose results are merged in
	floor    int64  // vacuity floor: minimum evaluations expected on the unchanged tree (quick)
	minClass int    // vacuity floor: minimum distinct classes
}

type leg struct {
	modDir, pkg, test string
	shards            int
}

var checks = map[string]checkSpec{
	"C16": {modDir: repoDir, pkg: ".", test: "TestVerifC16", shards: 8, quickS: 150, thoroS: 900, gomaxp: "2", floor: 300, minClass: 6},
	"C19": {modDir: repoDir, pkg: "./cmd/gotelemetry", test: "TestVerifC19", shards: 8, quickS: 150, thoroS: 900, gomaxp: "2", floor: 2000, minClass: 8},
	"C17": {modDir: repoDir, pkg: "./internal/chartconfig", test: "TestVerifC17", quickS: 150, thoroS: 900, gomaxp: "2", floor: 50000, minClass: 8,
		extra: []leg{{repoDir, "./internal/configgen", "TestVerifC17Gen", 8}}},
	"C15": {modDir: repoDir, pkg: "./internal/counter", test: "TestVerifC15", quickS: 150, thoroS: 900, gomaxp: "2", floor: 5000, minClass: 6},
	"C14": {modDir: repoDir, pkg: "./internal/crashmonitor", test: "TestVerifC14", quickS: 150, thoroS: 900, gomaxp: "2", floor: 5000, minClass: 8},
	"C11": {modDir: repoDir, pkg: "./cmd/gotelemetry/internal/view", test: "TestVerifC11View", shards: 8, quickS: 150, thoroS: 900, gomaxp: "2", floor: 200, minClass: 6,
		extra: []leg{{repoDir + "/godev", "./cmd/telemetrygodev", "TestVerifC11Server", 8}}},
	"C13": {modDir: repoDir + "/godev", pkg: "./cmd/worker", test: "TestVerifC13", quickS: 200, thoroS: 1200, gomaxp: "2", floor: 1000, minClass: 5},
	"C18": {modDir: repoDir + "/godev", pkg: "./internal/storage", test: "TestVerifC18", shards: 8, quickS: 150, thoroS: 900, gomaxp: "2", floor: 200, minClass: 3,
		extra: []leg{{repoDir + "/godev", "./cmd/telemetrygodev", "TestVerifC18Server", 1}}},
	"C12": {modDir: repoDir + "/godev", pkg: "./cmd/telemetrygodev", test: "TestVerifC12", shards: 8, quickS: 150, thoroS: 900, gomaxp: "4", floor: 500, minClass: 4},
	"C09": {modDir: repoDir, pkg: "./internal/counter", test: "TestVerifC09", quickS: 150, thoroS: 1200, gomaxp: "2", floor: 20000, minClass: 20,
		extra: []leg{{repoDir, "./internal/upload", "TestVerifC09Upload", 0}}},
	"C08": {modDir: repoDir, pkg: "./internal/upload", test: "TestVerifC08", quickS: 240, thoroS: 1500, gomaxp: "2", floor: 3000, minClass: 8},
	"C07": {modDir: repoDir, pkg: "./internal/upload", test: "TestVerifC07", quickS: 200, thoroS: 1500, gomaxp: "2", floor: 3000, minClass: 8},
	"C02": {modDir: repoDir, pkg: "./internal/upload", test: "TestVerifC02", quickS: 150, thoroS: 1200, gomaxp: "2", floor: 4000, minClass: 8,
		extra: []leg{{repoDir, "./internal/telemetry", "TestVerifC02Mode", 8}, {repoDir, "./internal/counter", "TestVerifC02Counter", 1}}},
	"C01": {modDir: repoDir, pkg: "./internal/upload", test: "TestVerifC01", quickS: 150, thoroS: 1200, gomaxp: "2", floor: 5000, minClass: 6},
	"C05": {modDir: repoDir, pkg: "./internal/counter", test: "TestVerifC05", quickS: 150, thoroS: 1200, gomaxp: "2", floor: 1000, minClass: 6,
		extra: []leg{{repoDir, "./internal/upload", "TestVerifC05Upload", 8}}},
	"C10": {modDir: repoDir, pkg: "./internal/counter", test: "TestVerifC10", quickS: 150, thoroS: 1200, gomaxp: "2", floor: 100000, minClass: 6},
	"C06": {modDir: repoDir, pkg: "./internal/counter", test: "TestVerifC06", quickS: 120, thoroS: 900, gomaxp: "2", floor: 10000, minClass: 4},
	"C04": {modDir: repoDir, pkg: "./internal/counter", test: "TestVerifC04", quickS: 240, thoroS: 6000, gomaxp: "2", floor: 1000, minClass: 5},
	"C03": {modDir: repoDir, pkg: "./internal/counter", test: "TestVerifC03", quickS: 240, thoroS: 1500, gomaxp: "2", floor: 1000, minClass: 5},
}

type violation struct {
	Sig    string `json:"sig"`
	Msg    string `json:"msg"`
	Replay any    `json:"replay"`
}

type scenarioStat struct {
	Name        string `json:"name"`
	Bound       string `json:"bound,omitempty"`
	Executions  int64  `json:"executions"`
	Transitions int64  `json:"transitions"`
	States      int64  `json:"states"`
	Outcomes    int64  `json:"distinct_outcomes"`
	Deadlocks   int64  `json:"deadlocks,omitempty"`
	Horizons    int64  `json:"horizons,omitempty"`
	Exhaustive  bool   `json:"exhaustive"`
	Note        string `json:"note,omitempty"`
}

type result struct {
	Property    string           `json:"property"`
	Tier        string           `json:"tier"`
	Shard       int              `json:"shard"`
	Evaluations int64            `json:"evaluations"`
	Transitions int64            `json:"transitions"`
	States      int64            `json:"states"`
	Validated   int64            `json:"traces_validated_against_impl"`
	Classes     map[string]int64 `json:"classes"`
	Scenarios   []scenarioStat   `json:"scenarios"`
	Violations  []violation      `json:"violations"`
	Samples     []any            `json:"samples"`
	Exhaustive  bool             `json:"exhaustive"`
	Notes       []string         `json:"notes"`
	Rule        string           `json:"rule"`
	Assumptions []string         `json:"assumptions"`
	Internal    string           `json:"internal_error"`
	WallS       float64          `json:"wall_s"`
}

type finding struct {
	Property string `json:"property"`
	Sig      string `json:"sig"`
	Status   string `json:"status"` // known | fixed
	What     string `json:"what"`
	Commit   string `json:"commit,omitempty"`
}

func goEnv() []string {
	env := os.Environ()
	return append(env, "GOFLAGS=-mod=mod", "GOPROXY=off", "GOSUMDB=off", "GOTOOLCHAIN=local")
}

var cleanupDirs []string

func exit(code int) {
	for _, d := range cleanupDirs {
		os.RemoveAll(d)
	}
	os.Exit(code)
}

func die(code int, format string, args ...any) {
	fmt.Fprintf(os.Stderr, "vcheck: "+format+"\n", args...)
	exit(code)
}

func run(dir string, env []string, name string, args ...string) ([]byte, error) {
	cmd := exec.Command(name, args...)
	cmd.Dir = dir
	cmd.Env = env
	return cmd.CombinedOutput()
}

func main() {
	if len(os.Args) < 2 || (len(os.Args) < 3 && os.Args[1] != "build-all") {
		die(2, "usage: vcheck <property> quick|thorough | vcheck <property> --replay <path> | vcheck build-all")
	}
	id := os.Args[1]
	if id == "build-all" {
		buildAll()
		return
	}
	spec, ok := checks[id]
	if !ok {
		die(2, "unknown property %q", id)
	}
	tier := os.Args[2]
	replay := ""
	if tier == "--replay" {
		if len(os.Args) < 4 {
			die(2, "--replay needs a path")
		}
		replay, tier = os.Args[3], "quick"
	}
	if t := os.Getenv("VERIF_TIER"); t != "" && replay == "" && (t == "quick" || t == "thorough") && tier == "" {
		tier = t
	}
	if tier != "quick" && tier != "thorough" {
		die(2, "tier must be quick or thorough")
	}
	start := time.Now()
	bin := build(id, spec)

	if replay != "" {
		cmd := exec.Command(bin, "-test.run", "^"+spec.test+"$", "-test.v", "-test.timeout", "0")
		abs, _ := filepath.Abs(replay)
		cmd.Env = append(os.Environ(), "VERIF_REPLAY="+abs, "VERIF_TIER=quick")
		cmd.Dir = filepath.Dir(bin)
		cmd.Stdout, cmd.Stderr = os.Stdout, os.Stderr
		if err := cmd.Run(); err != nil {
			if ee, ok := err.(*exec.ExitError); ok {
				os.Exit(ee.ExitCode())
			}
			die(2, "%v", err)
		}
		return
	}

	budget := spec.quickS
	if tier == "thorough" {
		budget = spec.thoroS
	}
	scratchBase := "/dev/shm"
	if fi, err := os.Stat(scratchBase); err != nil || !fi.IsDir() {
		scratchBase = os.TempDir()
	}
	scratch, err := os.MkdirTemp(scratchBase, "verif-run-"+id+"-")
	if err != nil {
		die(2, "%v", err)
	}
	cleanupDirs = append(cleanupDirs, scratch)
	defer os.RemoveAll(scratch)
	outDir := filepath.Join(buildDir, "out", id)
	os.RemoveAll(outDir)
	os.MkdirAll(outDir, 0o755)
	legs := append([]leg{{spec.modDir, spec.pkg, spec.test, spec.shards}}, spec.extra...)
	var results []*result
	n := 0
	for li, lg := range legs {
		lbin := bin
		if li > 0 {
			lbin = buildPkg(id, lg.modDir, lg.pkg)
		}
		ls := lg.shards
		if ls == 0 {
			ls = runtime.NumCPU()
		}
		n += ls
		results = append(results, runLeg(li, lbin, lg.test, ls, tier, budget, spec.gomaxp, scratch, outDir, filepath.Join(lg.modDir, lg.pkg))...)
	}

	// Merge.
	m := &result{Property: id, Tier: tier, Classes: map[string]int64{}, Exhaustive: true}
	scn := map[string]*scenarioStat{}
	var scnOrder []string
	for _, r := range results {
		if r.Internal != "" {
			die(2, "worker %d internal error: %s", r.Shard, r.Internal)
		}
		m.Evaluations += r.Evaluations
		m.Transitions += r.Transitions
		m.States += r.States
		m.Validated += r.Validated
		if !r.Exhaustive {
			m.Exhaustive = false
		}
		for k, v := range r.Classes {
			m.Classes[k] += v
		}
		for _, s := range r.Scenarios {
			key := s.Name + "|" + s.Bound
			t := scn[key]
			if t == nil {
				c := s
				c.Outcomes = 0
				scn[key] = &c
				scnOrder = append(scnOrder, key)
				continue
			}
			t.Executions += s.Executions
			t.Transitions += s.Transitions
			t.States += s.States
			t.Deadlocks += s.Deadlocks
			t.Horizons += s.Horizons
			t.Exhaustive = t.Exhaustive && s.Exhaustive
		}
		m.Violations = append(m.Violations, r.Violations...)
		if len(m.Samples) < 8 {
			m.Samples = append(m.Samples, r.Samples...)
		}
		for _, nn := range r.Notes {
			dup := false
			for _, o := range m.Notes {
				if o == nn {
					dup = true
				}
			}
			if !dup {
				m.Notes = append(m.Notes, nn)
			}
		}
		// A check may have several legs (different packages): keep every leg's rule and assumptions.
		if r.Rule != "" && !strings.Contains(m.Rule, r.Rule) {
			if m.Rule != "" {
				m.Rule += " || "
			}
			m.Rule += r.Rule
		}
		for _, a := range r.Assumptions {
			dup := false
			for _, o := range m.Assumptions {
				if o == a {
					dup = true
				}
			}
			if !dup {
				m.Assumptions = append(m.Assumptions, a)
			}
		}
	}
	if len(m.Samples) > 8 {
		m.Samples = m.Samples[:8]
	}
	for _, k := range scnOrder {
		st := scn[k]
		for c := range m.Classes {
			if strings.HasPrefix(c, st.Name+"/") {
				st.Outcomes++
			}
		}
		m.Scenarios = append(m.Scenarios, *st)
	}

	// Known findings.
	known := loadFindings()
	sort.Slice(m.Violations, func(i, j int) bool { return m.Violations[i].Sig < m.Violations[j].Sig })
	seenKnown := map[string]bool{}
	seenViol := map[string]bool{}
	nviol := 0
	var knownLines []string
	for _, v := range m.Violations {
		if f := matchFinding(known, id, v.Sig); f != nil {
			if !seenKnown[f.Sig] {
				seenKnown[f.Sig] = true
				line := fmt.Sprintf("KNOWN-FINDING: property=%s %s", id, f.What)
				fmt.Println(line)
				knownLines = append(knownLines, line)
			}
			continue
		}
		if seenViol[v.Sig] {
			continue
		}
		seenViol[v.Sig] = true
		nviol++
		h := sha256.Sum256([]byte(v.Sig))
		dir := filepath.Join(outRoot, "replays", id)
		os.MkdirAll(dir, 0o755)
		path := filepath.Join(dir, fmt.Sprintf("%x.json", h[:6]))
		data, _ := json.MarshalIndent(map[string]any{"property": id, "sig": v.Sig, "msg": v.Msg, "replay": v.Replay}, "", " ")
		os.WriteFile(path, data, 0o644)
		fmt.Printf("VIOLATION property=%s replay=%s\n", id, path)
		fmt.Printf("  sig: %s\n  msg: %s\n", v.Sig, v.Msg)
	}

	// Vacuity guard.
	vac := ""
	if tier == "quick" || tier == "thorough" {
		if m.Evaluations < spec.floor {
			vac = fmt.Sprintf("only %d evaluations (floor %d)", m.Evaluations, spec.floor)
		}
		if len(m.Classes) < spec.minClass {
			vac = fmt.Sprintf("only %d distinct classes (floor %d)", len(m.Classes), spec.minClass)
		}
	}

	// Evidence.
	seed := 0
	fmt.Sscan(os.Getenv("VERIF_SEED"), &seed)
	states := m.States
	if states < 1 {
		states = 1
	}
	trans := m.Transitions
	if trans < 1 {
		trans = m.Evaluations
	}
	cov := map[string]any{
		"states":                        states,
		"transitions":                   trans,
		"traces_validated_against_impl": m.Validated,
		"samples":                       m.Samples,
		"evaluations":                   m.Evaluations,
		"distinct_nontrivial":           len(m.Classes),
		"rule":                          m.Rule,
		"exhaustive":                    m.Exhaustive,
		"scenarios":                     m.Scenarios,
		"notes":                         m.Notes,
		"known_findings_reported":       knownLines,
		"workers":                       n,
		"states_note":                   "states = sum over worker processes of the distinct state hashes each worker saw (an upper bound of the union); distinct_outcomes per scenario are exact (over all bounds)",
		"vacuity":                       vac,
	}
	if len(m.Samples) == 0 {
		cov["samples"] = []any{"(no sample recorded)"}
	}
	if m.Assumptions == nil {
		m.Assumptions = []string{"see level_note of this check in MANIFEST.json"}
	}
	ev := map[string]any{
		"property_id": id, "tier": tier, "seed": seed, "level": "model_checking",
		"coverage": cov, "assumptions": m.Assumptions, "wall_s": time.Since(start).Seconds(), "violations": nviol,
	}
	os.MkdirAll(filepath.Join(outRoot, "evidence"), 0o755)
	data, _ := json.MarshalIndent(ev, "", " ")
	if err := os.WriteFile(filepath.Join(outRoot, "evidence", id+".json"), data, 0o644); err != nil {
		die(2, "%v", err)
	}
	fmt.Printf("%s %s: evaluations=%d transitions=%d states=%d classes=%d exhaustive=%v violations=%d known=%d wall=%.1fs\n",
		id, tier, m.Evaluations, m.Transitions, m.States, len(m.Classes), m.Exhaustive, nviol, len(seenKnown), time.Since(start).Seconds())
	if nviol > 0 {
		exit(1)
	}
	if vac != "" {
		die(2, "vacuous exploration: %s", vac)
	}
}


// runLeg runs one harness binary in ls parallel workers and returns their results.
func runLeg(li int, bin, test string, ls int, tier string, budget int, gmp, scratch, outDir, pkgDir string) []*result {
	results := make([]*result, ls)
	errs := make([]string, ls)
	var wg sync.WaitGroup
	for i := 0; i < ls; i++ {
		wg.Add(1)
		go func(i int) {
			defer wg.Done()
			tag := fmt.Sprintf("leg%d-shard%d", li, i)
			out := filepath.Join(outDir, tag+".json")
			// Hard stop well beyond the worker's own internal deadline: a worker that is
			// still running then is broken (exit 2), never a pass.
			ctx, cancel := context.WithTimeout(context.Background(), time.Duration(3*budget+300)*time.Second)
			defer cancel()
			cmd := exec.CommandContext(ctx, bin, "-test.run", "^"+test+"$", "-test.timeout", "0")
			cmd.Dir = pkgDir // like go test: some packages' TestMain inspects the module from the working directory
			if gmp == "" {
				gmp = "2"
			}
			cmd.Env = append(goEnv(), "VERIF_TIER="+tier, fmt.Sprintf("VERIF_SHARD=%d", i), fmt.Sprintf("VERIF_NSHARDS=%d", ls),
				"VERIF_OUT="+out, "VERIF_SCRATCH="+scratch, fmt.Sprintf("VERIF_BUDGET_S=%d", budget), "GOMAXPROCS="+gmp, "VERIF_SEED="+os.Getenv("VERIF_SEED"))
			logf, _ := os.Create(filepath.Join(outDir, tag+".log"))
			cmd.Stdout, cmd.Stderr = logf, logf
			err := cmd.Run()
			logf.Close()
			data, rerr := os.ReadFile(out)
			if rerr != nil {
				tail, _ := os.ReadFile(filepath.Join(outDir, tag+".log"))
				if len(tail) > 3000 {
					tail = tail[len(tail)-3000:]
				}
				errs[i] = fmt.Sprintf("worker %s (%s) produced no result (%v):\n%s", tag, test, err, tail)
				return
			}
			var r result
			if jerr := json.Unmarshal(data, &r); jerr != nil {
				errs[i] = fmt.Sprintf("worker %s: bad result: %v", tag, jerr)
				return
			}
			results[i] = &r
		}(i)
	}
	wg.Wait()
	for _, e := range errs {
		if e != "" {
			die(2, "%s", e)
		}
	}
	return results
}

// loadFindings reads /verif/known_findings.txt. Lines:
//
//	known: property=<id> sig=<signature> :: <what fails>
//	fixed: property=<id> <commit> <what failed>
//
// Only "known" lines suppress anything; the file is never written at run time.
func loadFindings() []finding {
	var out []finding
	data, err := os.ReadFile(filepath.Join(verifDir, "known_findings.txt"))
	if err != nil {
		return nil
	}
	for _, line := range strings.Split(string(data), "\n") {
		line = strings.TrimSpace(line)
		if !strings.HasPrefix(line, "known: property=") {
			continue
		}
		rest := strings.TrimPrefix(line, "known: property=")
		id, rest, ok := strings.Cut(rest, " sig=")
		if !ok {
			die(2, "known_findings.txt: bad line %q", line)
		}
		sig, what, ok := strings.Cut(rest, " :: ")
		if !ok {
			die(2, "known_findings.txt: bad line %q", line)
		}
		out = append(out, finding{Property: id, Sig: sig, Status: "known", What: what})
	}
	return out
}

func matchFinding(fs []finding, id, sig string) *finding {
	for i := range fs {
		if fs[i].Property == id && fs[i].Status == "known" && fs[i].Sig == sig {
			return &fs[i]
		}
	}
	return nil
}

var genOnce sync.Once

func gen() {
	genOnce.Do(func() {
		out, err := run(verifDir, goEnv(), filepath.Join(verifDir, "bin", envOr("VERIF_VGEN", "vgen")), "-out", buildDir, "-repo", repoDir)
		if err != nil {
			die(2, "vgen failed: %v\n%s", err, out)
		}
	})
}

func build(id string, spec checkSpec) string { return buildPkg(id, spec.modDir, spec.pkg) }

var built = map[string]string{}

func buildPkg(id, modDir, pkg string) string {
	gen()
	name := strings.Trim(strings.NewReplacer("/", "_", ".", "").Replace(modDir[len(repoDir):]+"_"+pkg), "_")
	if name == "" {
		name = "root"
	}
	bin := filepath.Join(buildDir, "bin", name+".test")
	if built[bin] != "" {
		return bin
	}
	os.MkdirAll(filepath.Dir(bin), 0o755)
	out, err := run(modDir, goEnv(), "go", "test", "-c", "-overlay", filepath.Join(buildDir, "overlay.json"),
		"-tags", "verif", "-vet=off", "-o", bin, pkg)
	if err != nil {
		die(2, "build of %s harness (%s) failed (a rewritten package no longer compiles against the shims?): %v\n%s", id, pkg, err, out)
	}
	built[bin] = bin
	return bin
}

func buildAll() {
	done := map[string]bool{}
	var ids []string
	for id := range checks {
		ids = append(ids, id)
	}
	sort.Strings(ids)
	for _, id := range ids {
		s := checks[id]
		for _, lg := range append([]leg{{s.modDir, s.pkg, s.test, 0}}, s.extra...) {
			key := lg.modDir + lg.pkg
			if done[key] {
				continue
			}
			done[key] = true
			t := time.Now()
			buildPkg(id, lg.modDir, lg.pkg)
			fmt.Printf("built harness %s in %.1fs\n", lg.pkg, time.Since(t).Seconds())
		}
	}
}
