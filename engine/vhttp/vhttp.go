// Package vhttp replaces net/http.Post (and, through http.DefaultTransport, every other use of the default
// client) in the rewritten uploader by a model
// server whose answer the harness (or, under the scheduler, a choice point)
// decides. The request is split into "received by the server" and "response
// delivered" so that a process kill can fall between the two.
package vhttp

import (
	"bytes"
	"errors"
	"fmt"
	"io"
	"net/http"

	"golang.org/x/telemetry/internal/verifshim/sched"
)

// Request is one request as the model server saw it.
type Request struct {
	URL    string
	Body   []byte
	Status int  // answer chosen (0: no answer)
	Thread int  // harness thread that sent it (-1 outside the scheduler)
	Acked  bool // the response was delivered to the client
}

var (
	// Log is the model server's request log for the current execution.
	Log []*Request
	// Answer decides the status of a request outside choice mode.
	// A zero status means "no answer" (transport error).
	Answer func(r *Request) int
	// Choices, if non-empty, makes the status a scheduler choice among these values.
	Choices []int
	// Real, if set, forwards to the real net/http.Post (harness not installed).
	Passthrough = true
)

// Silence is the answer of a server that accepts the request and then stays silent.
const Silence = -1

// Unbounded counts requests that met a silent server without any client-side time limit.
var Unbounded int

// Reset clears the log.
func Reset() { Log = nil; Unbounded = 0 }

func Post(url, contentType string, body io.Reader) (*http.Response, error) {
	if Passthrough {
		return http.Post(url, contentType, body)
	}
	return model(url, body, nil)
}

// transport makes the seam independent of how the uploader spells its request: anything sent through
// http.DefaultClient / http.DefaultTransport (http.Post, Client.Do, http.NewRequest + Do ...) reaches the
// same model server. RoundTrip runs on the calling goroutine, so its scheduling points are the caller's.
type transport struct{ prev http.RoundTripper }

func (t transport) RoundTrip(req *http.Request) (*http.Response, error) {
	if Passthrough {
		return t.prev.RoundTrip(req)
	}
	var body io.Reader = bytes.NewReader(nil)
	if req.Body != nil {
		body = req.Body
		defer req.Body.Close()
	}
	return model(req.URL.String(), body, req)
}

func init() {
	http.DefaultTransport = transport{prev: http.DefaultTransport}
}

func model(url string, body io.Reader, req *http.Request) (*http.Response, error) {
	if sched.Active() {
		sched.CheckDead()
		sched.Point("http.post.send", 0)
	}
	data, err := io.ReadAll(body)
	if err != nil {
		return nil, err
	}
	r := &Request{URL: url, Body: data, Thread: -1}
	if t := sched.Current(); t != nil {
		r.Thread = t.ID
	}
	Log = append(Log, r)
	status := 200
	if len(Choices) > 0 && sched.Active() {
		status = Choices[sched.Choose("http.status", len(Choices))]
	} else if Answer != nil {
		status = Answer(r)
	}
	r.Status = status
	if status == Silence {
		// The server accepts the request and never answers. A client with a time limit gets its timeout
		// error (virtual time: at once); a client without one would wait for ever, which is recorded and
		// then treated like a transport error so that the execution can go on.
		limited := false
		if req != nil {
			_, limited = req.Context().Deadline()
		}
		if !limited {
			Unbounded++
		}
		if sched.Active() {
			sched.Point("http.post.timeout", 0)
		}
		return nil, errors.New("verif: the upload server does not answer (client timeout)")
	}
	if sched.Active() {
		sched.Point("http.post.recv", 0)
	}
	r.Acked = true
	if status == 0 {
		return nil, errors.New("verif: no answer from the upload server")
	}
	return &http.Response{
		Status:     fmt.Sprintf("%d %s", status, http.StatusText(status)),
		StatusCode: status,
		Proto:      "HTTP/1.1", ProtoMajor: 1, ProtoMinor: 1,
		Header:  http.Header{},
		Body:    io.NopCloser(bytes.NewReader(nil)),
		Request: req,
	}, nil
}
