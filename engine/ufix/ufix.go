// Package ufix is a small fixture for harnesses outside internal/upload that
// need to drive the real uploader: a telemetry directory with counter files
// from the reference writer, the harness-supplied config and X, and the
// model upload server of vhttp.
package ufix

import (
	"fmt"
	"io"
	"os"
	"path/filepath"
	"sort"
	"time"

	"golang.org/x/telemetry/internal/telemetry"
	"golang.org/x/telemetry/internal/upload"
	"golang.org/x/telemetry/internal/verifshim/ref"
	"golang.org/x/telemetry/internal/verifshim/vconfigstore"
	"golang.org/x/telemetry/internal/verifshim/vhttp"
	"golang.org/x/telemetry/internal/verifshim/vrand"
)

// Dir is a telemetry directory under test.
type Dir struct {
	Path  string
	TD    telemetry.Dir
	nfile int
}

// New creates the directory layout under base.
func New(base string) *Dir {
	p, err := os.MkdirTemp(base, "t")
	if err != nil {
		panic(err)
	}
	d := &Dir{Path: p, TD: telemetry.NewDir(p)}
	os.MkdirAll(d.TD.LocalDir(), 0o777)
	os.MkdirAll(d.TD.UploadDir(), 0o777)
	vhttp.Passthrough = false
	vhttp.Reset()
	vhttp.Answer = nil
	vhttp.Choices = nil
	return d
}

// Close removes the directory.
func (d *Dir) Close() { os.RemoveAll(d.Path) }

// SetModeRaw writes the mode file verbatim.
func (d *Dir) SetModeRaw(s string) { os.WriteFile(d.TD.ModeFile(), []byte(s), 0o666) }

// WriteCount writes one counter file with the reference writer.
func (d *Dir) WriteCount(b ref.Build, begin, end time.Time, counts map[string]uint64) string {
	meta := ref.MetaString([][2]string{{"TimeBegin", begin.Format(time.RFC3339)}, {"TimeEnd", end.Format(time.RFC3339)}, {"Program", b.Program}, {"Version", b.Version}, {"GoVersion", b.GoVersion}, {"GOOS", b.GOOS}, {"GOARCH", b.GOARCH}})
	w := ref.NewCFWriter(meta)
	names := make([]string, 0, len(counts))
	for n := range counts {
		names = append(names, n)
	}
	sort.Strings(names)
	for _, n := range names {
		w.Add(n, counts[n])
	}
	d.nfile++
	name := fmt.Sprintf("%s@%s-%s-%s-%s-%s-%d.v1.count", filepath.Base(b.Program), b.Version, b.GoVersion, b.GOOS, b.GOARCH, begin.Format("2006-01-02"), d.nfile)
	p := filepath.Join(d.TD.LocalDir(), name)
	if err := os.WriteFile(p, w.Bytes(), 0o666); err != nil {
		panic(err)
	}
	return p
}

// Install points the config and randomness seams at the given values.
func Install(cfg *telemetry.UploadConfig, version string, x float64) {
	vconfigstore.Hook = func(string, []string) (*telemetry.UploadConfig, string, error) { return cfg, version, nil }
	vrand.Next = vrand.Sequence(x)
}

// Run executes the real uploader once.
func (d *Dir) Run(start time.Time) (err error, panicked any) {
	defer func() {
		if r := recover(); r != nil {
			panicked = r
		}
	}()
	return upload.Run(upload.RunConfig{TelemetryDir: d.Path, UploadURL: "http://upload.invalid/upload", StartTime: start, LogWriter: io.Discard}), nil
}
