// Package vconfigstore replaces configstore.Download (which runs
// "go mod download") by a harness-supplied upload configuration.
package vconfigstore

import (
	"golang.org/x/telemetry/internal/configstore"
	"golang.org/x/telemetry/internal/telemetry"
)

// Hook, if set, answers Download.
var Hook func(version string, env []string) (*telemetry.UploadConfig, string, error)

// Calls counts the downloads requested.
var Calls int

func Download(version string, env []string) (*telemetry.UploadConfig, string, error) {
	Calls++
	if Hook != nil {
		return Hook(version, env)
	}
	return configstore.Download(version, env)
}
