// Package vatomic mirrors the parts of sync/atomic used by the repository,
// with a scheduling point before every operation. The types have the same
// size and layout as their originals, so unsafe casts onto mapped memory
// keep working.
package vatomic

import (
	"sync/atomic"
	"unsafe"

	"golang.org/x/telemetry/internal/verifshim/sched"
)

// AddrCheck, if set, is called with the address and kind of every atomic
// operation performed by a harness thread before it takes effect (used to
// detect accesses to unmapped counter-file memory).
var AddrCheck func(addr uintptr, kind string)

// AfterCAS64, if set, is told about every 64-bit compare-and-swap a harness
// thread performed (used to account for completed cell additions).
var AfterCAS64 func(addr uintptr, old, new uint64, ok bool)

// SharedOnly, if set, restricts scheduling points to addresses for which it
// reports true. Used when every emulated process has a single thread, so
// that operations on process-private words commute with everything another
// process can do (a sound partial-order reduction).
var SharedOnly func(addr uintptr) bool

// Budget, when positive, is the number of atomic operations the code may
// still perform outside the scheduler before BudgetExceeded is raised. It
// makes unbounded loops over file words visible without any wall clock.
var Budget int64

// BudgetExceeded is the panic value raised when Budget runs out.
type BudgetExceeded struct{}

// Spend charges n steps to the budget (file-system calls are charged by vos, so that a loop
// whose iterations are mostly system calls exhausts the budget quickly too).
func Spend(n int64) {
	if Budget > 0 {
		Budget -= n
		if Budget <= 0 {
			Budget = 0
			panic(BudgetExceeded{})
		}
	}
}

func pre(kind string, p unsafe.Pointer) {
	if !sched.Active() {
		if Budget > 0 {
			Budget--
			if Budget == 0 {
				panic(BudgetExceeded{})
			}
		}
		return
	}
	if SharedOnly != nil && !SharedOnly(uintptr(p)) {
		return
	}
	sched.Point(kind, uintptr(p))
	if AddrCheck != nil {
		AddrCheck(uintptr(p), kind)
	}
}

func b2u(b bool) uint64 {
	if b {
		return 1
	}
	return 0
}

type Uint32 struct{ v atomic.Uint32 }

func (x *Uint32) Load() uint32 {
	pre("load32", unsafe.Pointer(x))
	r := x.v.Load()
	sched.Observe(uint64(r))
	return r
}
func (x *Uint32) Store(v uint32) { pre("store32", unsafe.Pointer(x)); x.v.Store(v) }
func (x *Uint32) CompareAndSwap(old, new uint32) bool {
	pre("cas32", unsafe.Pointer(x))
	r := x.v.CompareAndSwap(old, new)
	sched.Observe(b2u(r))
	return r
}
func (x *Uint32) Add(d uint32) uint32 {
	pre("add32", unsafe.Pointer(x))
	r := x.v.Add(d)
	sched.Observe(uint64(r))
	return r
}

type Bool struct{ v atomic.Bool }

func (x *Bool) Load() bool {
	pre("loadbool", unsafe.Pointer(x))
	r := x.v.Load()
	sched.Observe(b2u(r))
	return r
}
func (x *Bool) Store(v bool) { pre("storebool", unsafe.Pointer(x)); x.v.Store(v) }
func (x *Bool) CompareAndSwap(old, new bool) bool {
	pre("casbool", unsafe.Pointer(x))
	r := x.v.CompareAndSwap(old, new)
	sched.Observe(b2u(r))
	return r
}

type Uint64 struct{ v atomic.Uint64 }

func (x *Uint64) Load() uint64 {
	pre("load64", unsafe.Pointer(x))
	r := x.v.Load()
	sched.Observe(r)
	return r
}
func (x *Uint64) Store(v uint64) { pre("store64", unsafe.Pointer(x)); x.v.Store(v) }
func (x *Uint64) CompareAndSwap(old, new uint64) bool {
	pre("cas64", unsafe.Pointer(x))
	r := x.v.CompareAndSwap(old, new)
	sched.Observe(b2u(r))
	if AfterCAS64 != nil && sched.Active() {
		AfterCAS64(uintptr(unsafe.Pointer(x)), old, new, r)
	}
	return r
}
func (x *Uint64) Add(d uint64) uint64 {
	pre("add64", unsafe.Pointer(x))
	r := x.v.Add(d)
	sched.Observe(r)
	return r
}

type Pointer[T any] struct{ v atomic.Pointer[T] }

func (x *Pointer[T]) Load() *T {
	pre("loadptr", unsafe.Pointer(x))
	r := x.v.Load()
	if r != nil {
		sched.Observe(1)
	} else {
		sched.Observe(0)
	}
	return r
}
func (x *Pointer[T]) Store(v *T) { pre("storeptr", unsafe.Pointer(x)); x.v.Store(v) }
func (x *Pointer[T]) CompareAndSwap(old, new *T) bool {
	pre("casptr", unsafe.Pointer(x))
	r := x.v.CompareAndSwap(old, new)
	sched.Observe(b2u(r))
	return r
}

func StoreUint32(addr *uint32, v uint32) {
	pre("store32", unsafe.Pointer(addr))
	atomic.StoreUint32(addr, v)
}
func LoadUint32(addr *uint32) uint32 {
	pre("load32", unsafe.Pointer(addr))
	r := atomic.LoadUint32(addr)
	sched.Observe(uint64(r))
	return r
}
func CompareAndSwapUint32(addr *uint32, old, new uint32) bool {
	pre("cas32", unsafe.Pointer(addr))
	r := atomic.CompareAndSwapUint32(addr, old, new)
	sched.Observe(b2u(r))
	return r
}
func StoreUint64(addr *uint64, v uint64) {
	pre("store64", unsafe.Pointer(addr))
	atomic.StoreUint64(addr, v)
}
func LoadUint64(addr *uint64) uint64 {
	pre("load64", unsafe.Pointer(addr))
	r := atomic.LoadUint64(addr)
	sched.Observe(r)
	return r
}
func AddUint64(addr *uint64, d uint64) uint64 {
	pre("add64", unsafe.Pointer(addr))
	r := atomic.AddUint64(addr, d)
	sched.Observe(r)
	return r
}
func CompareAndSwapUint64(addr *uint64, old, new uint64) bool {
	pre("cas64", unsafe.Pointer(addr))
	r := atomic.CompareAndSwapUint64(addr, old, new)
	sched.Observe(b2u(r))
	return r
}
