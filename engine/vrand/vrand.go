// Package vrand replaces crypto/rand.Read in the rewritten uploader so that
// the report's random X is decided by the harness.
package vrand

import (
	mrand "math/rand"
	"crypto/rand"
	"encoding/binary"
	"math"
)

// Next, if set, supplies the 8 bytes the uploader turns into X.
var Next func() [8]byte

func Read(b []byte) (int, error) {
	if Next == nil || len(b) != 8 {
		return rand.Read(b)
	}
	v := Next()
	copy(b, v[:])
	return 8, nil
}

// BytesForX returns 8 bytes from which the uploader's computeRandom
// (frac*2-1 of the float's fraction) derives exactly x, for x in (0,1).
func BytesForX(x float64) [8]byte {
	// computeRandom: f = Float64frombits(b); frac,_ = Frexp(|f|); X = frac*2-1, frac in [0.5,1).
	f := (x + 1) / 2 // frac
	var b [8]byte
	binary.LittleEndian.PutUint64(b[:], math.Float64bits(f))
	return b
}

// Sequence returns a source whose first draw yields x and whose later draws
// (the uploader redraws when it does not like a value) yield 0.625, 0.5625, ...
func Sequence(x float64) func() [8]byte {
	n := 0
	return func() [8]byte {
		n++
		if n == 1 {
			return BytesForX(x)
		}
		return BytesForX(0.5 + 0.125/float64(n-1))
	}
}

// IntnHook, if set, replaces math/rand.Intn (the random week-end day chosen
// when the weekends file has to be created).
var IntnHook func(n int) int

func Intn(n int) int {
	if IntnHook != nil {
		return IntnHook(n)
	}
	return mrand.Intn(n)
}
