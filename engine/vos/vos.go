// Package vos routes the repository's file-system, environment and mmap
// calls through the scheduler: each call is (optionally) a scheduling point
// and (optionally) a fault choice point whose default answer is the real
// operation's result. Outside an exploration every function is a plain
// pass-through to package os.
package vos

import (
	"errors"
	"io"
	"io/fs"
	"os"
	"sync"
	"syscall"
	"time"
	"unsafe"

	"golang.org/x/telemetry/internal/mmap"
	"golang.org/x/telemetry/internal/verifshim/sched"
	"golang.org/x/telemetry/internal/verifshim/vatomic"
)

var (
	// Points makes every call a scheduling point (C04, C07, C08, C16).
	Points bool
	// Faults makes every call a fault choice point (C05).
	Faults bool
	// FaultFilter, if set, restricts fault injection to operations for
	// which it returns a non-empty menu; otherwise the default menu applies.
	FaultMenu func(op, path string) []error
	// Poison keeps unmapped ranges mapped but marked dead, so that a later
	// access is detected and attributed instead of crashing the explorer.
	Poison bool
	// Calls counts intercepted calls made by harness threads.
	Calls int64
	// ExitHook replaces os.Exit for harness threads.
	ExitHook func(code int)
	// EnvHook, if set, provides a per-process environment.
	EnvGet  func(key string) (string, bool)
	EnvSet  func(key, val string)
	EnvList func() []string
)

// Foreign is a fault-menu entry that, instead of failing the call, lets a
// foreign program act on the directory just before the call proceeds.
type Foreign struct {
	Name string
	Do   func()
}

func (f *Foreign) Error() string { return "foreign:" + f.Name }

// Special menu entries understood by individual operations.
var (
	ErrShort     = errors.New("verif: short write")      // FWrite/FWriteAt: half the bytes are written, io.ErrShortWrite returned
	ErrStaleStat = errors.New("verif: stale size")       // FStat: reports the size one page smaller
	ErrShortMap  = errors.New("verif: short mapping")    // Mmap: maps one page less than the file holds
)

var defaultErrs = map[string][]error{
	"OpenFile":  {syscall.EIO, syscall.ENOENT, syscall.EEXIST},
	"ReadFile":  {syscall.EIO, syscall.ENOENT},
	"WriteFile": {syscall.EIO, syscall.ENOENT},
	"MkdirAll":  {syscall.EIO, syscall.EEXIST},
	"Remove":    {syscall.EIO, syscall.ENOENT},
	"Stat":      {syscall.EIO, syscall.ENOENT},
	"ReadDir":   {syscall.EIO, syscall.ENOENT},
	"FWrite":    {syscall.EIO},
	"FWriteAt":  {syscall.EIO},
	"FStat":     {syscall.EIO},
	"FClose":    {syscall.EIO},
	"FRead":     {syscall.EIO},
	"Mmap":      {syscall.ENOMEM},
}

// pre is the common prologue; it returns a non-nil error when a fault is
// injected instead of performing the call.
func pre(op, path string) error {
	if !sched.Active() {
		vatomic.Spend(200)
		return nil
	}
	sched.CheckDead()
	Calls++
	if Points {
		sched.Point("os."+op, 0)
	}
	if Faults {
		var menu []error
		if FaultMenu != nil {
			menu = FaultMenu(op, path)
		} else {
			menu = defaultErrs[op]
		}
		if len(menu) > 0 {
			if k := sched.Choose(op, len(menu)+1); k > 0 {
				switch e := menu[k-1].(type) {
				case *Foreign:
					e.Do()
					return nil
				default:
					if e == ErrShort || e == ErrStaleStat || e == ErrShortMap {
						return e
					}
					return &fs.PathError{Op: op, Path: path, Err: e}
				}
			}
		}
	}
	return nil
}

func OpenFile(name string, flag int, perm os.FileMode) (*os.File, error) {
	if err := pre("OpenFile", name); err != nil {
		return nil, err
	}
	return os.OpenFile(name, flag, perm)
}

func Open(name string) (*os.File, error) { return OpenFile(name, os.O_RDONLY, 0) }
func Create(name string) (*os.File, error) {
	return OpenFile(name, os.O_RDWR|os.O_CREATE|os.O_TRUNC, 0666)
}

func ReadFile(name string) ([]byte, error) {
	if err := pre("ReadFile", name); err != nil {
		return nil, err
	}
	return os.ReadFile(name)
}

// WriteFile is split into create / write / close so that a process kill can
// leave an empty or complete file behind, as with the real three syscalls.
func WriteFile(name string, data []byte, perm os.FileMode) error {
	if !sched.Active() {
		return os.WriteFile(name, data, perm)
	}
	if err := pre("WriteFile", name); err != nil {
		return err
	}
	f, err := os.OpenFile(name, os.O_WRONLY|os.O_CREATE|os.O_TRUNC, perm)
	if err != nil {
		return err
	}
	if Points {
		sched.Point("os.WriteFile.write", 0)
	}
	if sched.Dead() {
		f.Close()
		return syscall.EINTR
	}
	_, err = f.Write(data)
	if Points {
		sched.Point("os.WriteFile.close", 0)
	}
	if err1 := f.Close(); err1 != nil && err == nil {
		err = err1
	}
	return err
}

func MkdirAll(path string, perm os.FileMode) error {
	if err := pre("MkdirAll", path); err != nil {
		return err
	}
	return os.MkdirAll(path, perm)
}
func Mkdir(path string, perm os.FileMode) error {
	if err := pre("MkdirAll", path); err != nil {
		return err
	}
	return os.Mkdir(path, perm)
}
func Remove(name string) error {
	if err := pre("Remove", name); err != nil {
		return err
	}
	return os.Remove(name)
}
func RemoveAll(name string) error {
	if err := pre("Remove", name); err != nil {
		return err
	}
	return os.RemoveAll(name)
}
func Rename(a, b string) error {
	if err := pre("Remove", a); err != nil {
		return err
	}
	return os.Rename(a, b)
}
func Stat(name string) (os.FileInfo, error) {
	if err := pre("Stat", name); err != nil {
		return nil, err
	}
	fi, err := os.Stat(name)
	if err == nil && Age != 0 {
		return agedInfo{fi, Age}, nil
	}
	return fi, err
}

// Age, when non-zero, makes every file look that much older to Stat: the elapsed time between two steps of
// different processes is not bounded by the scheduler, so a peer that has been waiting on the server for Age
// (below the HTTP client's timeout) is a legitimate concurrent state.
var Age time.Duration

type agedInfo struct {
	os.FileInfo
	by time.Duration
}

func (a agedInfo) ModTime() time.Time { return a.FileInfo.ModTime().Add(-a.by) }

func ReadDir(name string) ([]os.DirEntry, error) {
	if err := pre("ReadDir", name); err != nil {
		return nil, err
	}
	return os.ReadDir(name)
}
func Chtimes(name string, a, m time.Time) error { return os.Chtimes(name, a, m) }
func Executable() (string, error)                { return os.Executable() }

func Getenv(key string) string {
	if EnvGet != nil {
		v, _ := EnvGet(key)
		return v
	}
	return os.Getenv(key)
}
func Setenv(key, val string) error {
	if EnvSet != nil {
		EnvSet(key, val)
		return nil
	}
	return os.Setenv(key, val)
}
func Environ() []string {
	if EnvList != nil {
		return EnvList()
	}
	return os.Environ()
}

type exitPanic struct{ Code int }

func Exit(code int) {
	if ExitHook != nil {
		ExitHook(code)
		return
	}
	os.Exit(code)
}

// File methods.

func fname(f *os.File) string {
	if f == nil {
		return "<nil>"
	}
	return f.Name()
}

func FWrite(f *os.File, b []byte) (int, error) {
	if err := pre("FWrite", fname(f)); err != nil {
		if err == ErrShort {
			n, _ := f.Write(b[:len(b)/2])
			return n, io.ErrShortWrite
		}
		return 0, err
	}
	return f.Write(b)
}
func FWriteString(f *os.File, s string) (int, error) { return FWrite(f, []byte(s)) }
func FWriteAt(f *os.File, b []byte, off int64) (int, error) {
	if err := pre("FWriteAt", fname(f)); err != nil {
		if err == ErrShort {
			n, _ := f.WriteAt(b[:len(b)/2], off)
			return n, io.ErrShortWrite
		}
		return 0, err
	}
	return f.WriteAt(b, off)
}
func FRead(f *os.File, b []byte) (int, error) {
	if err := pre("FRead", fname(f)); err != nil {
		return 0, err
	}
	return f.Read(b)
}
func FStat(f *os.File) (os.FileInfo, error) {
	if err := pre("FStat", fname(f)); err != nil {
		if err == ErrStaleStat {
			fi, err := f.Stat()
			if err != nil {
				return nil, err
			}
			sz := fi.Size() - 16384
			if sz < 0 {
				sz = 0
			}
			return staleInfo{fi, sz}, nil
		}
		return nil, err
	}
	return f.Stat()
}
func FClose(f *os.File) error {
	// Closing always really happens (descriptors must not leak), but a
	// fault may be reported.
	err := pre("FClose", fname(f))
	err1 := f.Close()
	if err != nil {
		return err
	}
	return err1
}
func FSync(f *os.File) error               { return f.Sync() }
func FTruncate(f *os.File, n int64) error { return f.Truncate(n) }

// Mapping bookkeeping.

type rng struct {
	lo, hi uintptr
	by     string // who unmapped it
	d      *mmap.Data
	file   string
	step   int // global step at which the range was unmapped
	seq    int // creation order within the current execution
}

var mapSeq int

// MapInfo describes the mapping an address lies in: its creation index within the current
// execution (pointer values differ between executions, creation order does not), the
// offset, and whether it has been unmapped.
func MapInfo(addr uintptr) (seq int, off uint32, isDead, ok bool) {
	for _, r := range live {
		if addr >= r.lo && addr < r.hi {
			return r.seq, uint32(addr - r.lo), false, true
		}
	}
	for _, r := range dead {
		if addr >= r.lo && addr < r.hi {
			return r.seq, uint32(addr - r.lo), true, true
		}
	}
	return 0, 0, false, false
}

// Locate maps an address inside a (live or poisoned) file mapping to the
// file name and offset.
func Locate(addr uintptr) (file string, off uint32, ok bool) {
	for _, r := range live {
		if addr >= r.lo && addr < r.hi {
			return r.file, uint32(addr - r.lo), true
		}
	}
	for _, r := range dead {
		if addr >= r.lo && addr < r.hi {
			return r.file, uint32(addr - r.lo), true
		}
	}
	return "", 0, false
}

var (
	mu   sync.Mutex
	live []rng
	dead []rng
	// Maps / Unmaps count mapping operations of harness threads.
	Maps, Unmaps int64
)

type staleInfo struct {
	os.FileInfo
	size int64
}

func (s staleInfo) Size() int64 { return s.size }

func Mmap(f *os.File) (*mmap.Data, error) {
	short := false
	if err := pre("Mmap", fname(f)); err != nil {
		if err != ErrShortMap {
			return nil, err
		}
		short = true
	}
	d, err := mmap.Mmap(f)
	if err == nil && short && len(d.Data) > 16384 {
		d.Data = d.Data[:len(d.Data)-16384]
	}
	if err == nil && len(d.Data) > 0 {
		lo := uintptr(unsafe.Pointer(&d.Data[0]))
		mu.Lock()
		mapSeq++
		live = append(live, rng{lo: lo, hi: lo + uintptr(len(d.Data)), d: d, file: f.Name(), seq: mapSeq})
		mu.Unlock()
		if sched.Active() {
			Maps++
		}
	}
	return d, err
}

func Munmap(d *mmap.Data) error {
	if sched.Active() {
		sched.Point("munmap", 0)
	}
	if d == nil || len(d.Data) == 0 {
		return mmap.Munmap(d)
	}
	lo := uintptr(unsafe.Pointer(&d.Data[0]))
	mu.Lock()
	file := ""
	seq := 0
	for i, r := range live {
		if r.lo == lo {
			file = r.file
			seq = r.seq
			live = append(live[:i], live[i+1:]...)
			break
		}
	}
	if !Poison || !sched.Active() {
		mu.Unlock()
		return mmap.Munmap(d)
	}
	dead = append(dead, rng{lo: lo, hi: lo + uintptr(len(d.Data)), by: sched.CallerSite(1), d: &mmap.Data{Data: d.Data}, file: file, step: sched.StepNow(), seq: seq})
	mu.Unlock()
	Unmaps++
	return nil
}

// CheckAddr reports an access by a harness thread to a poisoned range.
func CheckAddr(addr uintptr, kind string) {
	for _, r := range dead {
		if addr >= r.lo && addr < r.hi {
			when := "; the call was in flight when the mapping was closed"
			if t := sched.Current(); t != nil && t.OpStart >= r.step {
				when = "; the call began after the mapping was closed"
			}
			sched.Violate("use-after-unmap: " + kind + " in " + sched.CallerSite(2) + "; mapping closed by " + r.by + when)
			return
		}
	}
}

// ReleaseDead really unmaps everything that was poisoned or left mapped
// during the execution (called from the scenario's teardown).
func ReleaseDead() {
	mu.Lock()
	defer mu.Unlock()
	for _, r := range dead {
		syscall.Munmap(r.d.Data[:cap(r.d.Data)])
	}
	dead = dead[:0]
	for _, r := range live {
		mmap.Munmap(r.d)
	}
	live = live[:0]
	mapSeq = 0
}

// IsMapped reports whether addr lies in a live or poisoned file mapping.
func IsMapped(addr uintptr) bool { _, _, ok := Locate(addr); return ok }

// LiveCount is the number of mappings made and not yet unmapped.
func LiveCount() int { return len(live) }

// DeadCount is the number of poisoned ranges.
func DeadCount() int { return len(dead) }
