// Package vtime routes the few wall-clock reads and timers of the rewritten
// packages through harness-controlled hooks (pass-through by default).
package vtime

import "time"

var (
	// NowHook, if set, replaces time.Now.
	NowHook func() time.Time
	// NoTimers makes AfterFunc return a stopped timer that never fires, so
	// that weekly rotation timers of one harness case cannot act on the
	// directory of a later case.
	NoTimers bool
)

func Now() time.Time {
	if NowHook != nil {
		return NowHook()
	}
	return time.Now()
}

func Since(t time.Time) time.Duration { return Now().Sub(t) }
func Until(t time.Time) time.Duration { return t.Sub(Now()) }

// Delays records the delay of every timer requested through AfterFunc (harnesses reset it).
var Delays []time.Duration

func AfterFunc(d time.Duration, f func()) *time.Timer {
	Delays = append(Delays, d)
	if len(Delays) > 1000 {
		Delays = Delays[len(Delays)-1000:]
	}
	if NoTimers {
		t := time.AfterFunc(time.Hour, func() {})
		t.Stop()
		return t
	}
	return time.AfterFunc(d, f)
}
