package ref

// Documented upload-config semantics (written from the documentation of
// UploadConfig / CounterConfig and the property statements C01, C11):
//
//   - a program build is approved iff its Go version is listed in
//     UploadConfig.GoVersion, its program path is the Name of a ProgramConfig
//     and its version is in that program's Versions (C11 adds: GOOS and
//     GOARCH are listed too);
//   - a counter config "chart:{a,b}" stands for the counters "chart:a" and
//     "chart:b"; a config without braces stands for itself;
//   - a counter is approved iff it is one of the expanded names of a counter
//     config of its program and X <= that config's Rate;
//   - a stack counter is approved iff the text before its first newline is
//     the Name of a stack config of its program and X <= its Rate.

import (
	"math"
	"math/big"
	"sort"
	"strings"

	"golang.org/x/telemetry/internal/telemetry"
)

// ExpandCounter expands the bucket syntax.
func ExpandCounter(name string) []string {
	i := strings.Index(name, "{")
	if i < 0 {
		return []string{name}
	}
	prefix, rest := name[:i], name[i+1:]
	rest = strings.TrimSuffix(rest, "}")
	var out []string
	for _, b := range strings.Split(rest, ",") {
		if b == "" {
			continue // an empty bucket list, or an empty element of it, names no counter
		}
		out = append(out, prefix+b)
	}
	return out
}

func contains(list []string, s string) bool {
	for _, x := range list {
		if x == s {
			return true
		}
	}
	return false
}

// Build identifies a program build.
type Build struct{ Program, Version, GoVersion, GOOS, GOARCH string }

// program returns what the configuration lists for the program: the union of all entries of that name
// (a program may be listed more than once).
func program(cfg *telemetry.UploadConfig, name string) *telemetry.ProgramConfig {
	var out *telemetry.ProgramConfig
	for _, p := range cfg.Programs {
		if p.Name == name {
			if out == nil {
				out = &telemetry.ProgramConfig{Name: name}
			}
			out.Versions = append(out.Versions, p.Versions...)
			out.Counters = append(out.Counters, p.Counters...)
			out.Stacks = append(out.Stacks, p.Stacks...)
		}
	}
	return out
}

// BuildApproved is the C01 notion (path, version, Go version); withOS adds
// the GOOS/GOARCH membership of C11.
func BuildApproved(cfg *telemetry.UploadConfig, b Build, withOS bool) bool {
	p := program(cfg, b.Program)
	if p == nil || !contains(p.Versions, b.Version) || !contains(cfg.GoVersion, b.GoVersion) {
		return false
	}
	if withOS && (!contains(cfg.GOOS, b.GOOS) || !contains(cfg.GOARCH, b.GOARCH)) {
		return false
	}
	return true
}

// CounterListed reports whether the configuration lists the counter for the
// program, and with which rate.
func CounterListed(cfg *telemetry.UploadConfig, prog, name string) (rate float64, ok bool) {
	p := program(cfg, prog)
	if p == nil {
		return 0, false
	}
	// A name may be listed several times; it is approved at X if some listing's rate is not below X,
	// so the effective rate is the largest.
	for _, c := range p.Counters {
		for _, e := range ExpandCounter(c.Name) {
			if e == name && (!ok || c.Rate > rate) {
				rate, ok = c.Rate, true
			}
		}
	}
	return rate, ok
}

// StackListed is the analogue for stack counters (matched on the head).
func StackListed(cfg *telemetry.UploadConfig, prog, fullName string) (rate float64, ok bool) {
	p := program(cfg, prog)
	if p == nil {
		return 0, false
	}
	head := fullName
	if i := strings.Index(fullName, "\n"); i >= 0 {
		head = fullName[:i]
	}
	for _, s := range p.Stacks {
		if s.Name == head && (!ok || s.Rate > rate) {
			rate, ok = s.Rate, true
		}
	}
	return rate, ok
}

// LocalFile is the content of one expired counter file as the reference sees it.
type LocalFile struct {
	Build  Build
	Counts map[string]uint64 // expanded names
}

// Triple is one uploaded datum.
type Triple struct {
	Build Build
	Stack bool
	Name  string
	Value int64
}

// ExpectedUpload computes the set of (build, name, value) triples the upload
// report for one week must contain, and the set of builds that may be named.
func ExpectedUpload(cfg *telemetry.UploadConfig, x float64, files []LocalFile) (triples map[Triple]bool, approvedBuilds map[Build]bool) {
	type key struct {
		b     Build
		stack bool
		name  string
	}
	sums := map[key]*big.Int{} // exact; reported saturated at the largest int64
	approvedBuilds = map[Build]bool{}
	for _, f := range files {
		// C01's statement names path, version and Go version; the configuration's GOOS and GOARCH lists
		// belong to the documented semantics as well (C11), so a build outside them is not approved.
		if !BuildApproved(cfg, f.Build, true) {
			continue
		}
		approvedBuilds[f.Build] = true
		for name, v := range f.Counts {
			stack := strings.Contains(name, "\n")
			var rate float64
			var ok bool
			if stack {
				rate, ok = StackListed(cfg, f.Build.Program, name)
			} else {
				rate, ok = CounterListed(cfg, f.Build.Program, name)
			}
			if !ok || x > rate {
				continue
			}
			k := key{f.Build, stack, name}
			if sums[k] == nil {
				sums[k] = new(big.Int)
			}
			sums[k].Add(sums[k], new(big.Int).SetUint64(v))
		}
	}
	triples = map[Triple]bool{}
	for k, v := range sums {
		triples[Triple{k.b, k.stack, k.name, saturate(v)}] = true
	}
	return triples, approvedBuilds
}

// ReportTriples flattens a report.
func ReportTriples(r *telemetry.Report) (map[Triple]bool, map[Build]bool) {
	t := map[Triple]bool{}
	bs := map[Build]bool{}
	for _, p := range r.Programs {
		b := Build{p.Program, p.Version, p.GoVersion, p.GOOS, p.GOARCH}
		bs[b] = true
		for n, v := range p.Counters {
			t[Triple{b, false, n, v}] = true
		}
		for n, v := range p.Stacks {
			t[Triple{b, true, n, v}] = true
		}
	}
	return t, bs
}

// DiffTriples describes the difference between two triple sets.
func DiffTriples(got, want map[Triple]bool) []string {
	var out []string
	for t := range got {
		if !want[t] {
			out = append(out, "unexpected "+tripleString(t))
		}
	}
	for t := range want {
		if !got[t] {
			out = append(out, "missing "+tripleString(t))
		}
	}
	sort.Strings(out)
	return out
}

func tripleString(t Triple) string {
	kind := "counter"
	if t.Stack {
		kind = "stack"
	}
	n := t.Name
	if len(n) > 40 {
		n = n[:40] + "..."
	}
	return kind + " " + strings.ReplaceAll(n, "\n", "\\n") + "=" + itoa(t.Value) + " of " + t.Build.Program + "@" + t.Build.Version + "/" + t.Build.GoVersion + "/" + t.Build.GOOS + "/" + t.Build.GOARCH
}

func itoa(v int64) string {
	if v == 0 {
		return "0"
	}
	neg := v < 0
	var b []byte
	u := uint64(v)
	if neg {
		u = uint64(-v)
	}
	for u > 0 {
		b = append([]byte{byte('0' + u%10)}, b...)
		u /= 10
	}
	if neg {
		b = append([]byte{'-'}, b...)
	}
	return string(b)
}

// SumFiles is the unfiltered weekly aggregate: per build, the sum of every
// counter over the files.
func SumFiles(files []LocalFile) map[Triple]bool {
	type key struct {
		b    Build
		name string
	}
	// exact sums; a report's values are int64, and a sum beyond that range is reported as the largest int64
	sums := map[key]*big.Int{}
	for _, f := range files {
		for n, v := range f.Counts {
			// names become JSON object keys in a report: bytes that are not valid UTF-8 are written as
			// U+FFFD there, and names that become equal that way are one counter of the report
			k := key{f.Build, strings.ToValidUTF8(n, "\uFFFD")}
			if sums[k] == nil {
				sums[k] = new(big.Int)
			}
			sums[k].Add(sums[k], new(big.Int).SetUint64(v))
		}
	}
	out := map[Triple]bool{}
	for k, v := range sums {
		out[Triple{k.b, strings.Contains(k.name, "\n"), k.name, saturate(v)}] = true
	}
	return out
}

// saturate is the value a report carries for an exact sum: the sum, or the largest int64 beyond that.
func saturate(v *big.Int) int64 {
	if v.IsInt64() {
		return v.Int64()
	}
	return math.MaxInt64
}
