package ref

import (
	"crypto/sha256"
	"fmt"
	"os"
	"path/filepath"
	"sort"
)

// Snap is a recursive directory snapshot: relative path -> "type:size:sha256".
type Snap map[string]string

// Snapshot walks root (which may be absent).
func Snapshot(root string) Snap {
	s := Snap{}
	filepath.Walk(root, func(p string, info os.FileInfo, err error) error {
		if err != nil {
			return nil
		}
		rel, _ := filepath.Rel(root, p)
		switch {
		case info.IsDir():
			s[rel] = "dir"
		case info.Mode().IsRegular():
			data, _ := os.ReadFile(p)
			s[rel] = fmt.Sprintf("file:%d:%x", len(data), sha256.Sum256(data))
		default:
			s[rel] = "other:" + info.Mode().String()
		}
		return nil
	})
	return s
}

// Diff lists the paths that differ between two snapshots.
func (a Snap) Diff(b Snap) []string {
	var out []string
	for k, v := range a {
		if w, ok := b[k]; !ok {
			out = append(out, "removed "+k)
		} else if w != v {
			out = append(out, "changed "+k)
		}
	}
	for k := range b {
		if _, ok := a[k]; !ok {
			out = append(out, "created "+k)
		}
	}
	sort.Strings(out)
	return out
}
