package ref

import "time"

// WeekSpan is the documented span of a counter file opened at now with the
// given week-end day: it begins at 00:00 UTC of the current day and ends at
// 00:00 UTC of the first later day that falls on the configured weekday
// (one to seven days later).
func WeekSpan(now time.Time, weekend time.Weekday) (begin, end time.Time) {
	y, m, d := now.UTC().Date()
	begin = time.Date(y, m, d, 0, 0, 0, 0, time.UTC)
	for k := 1; k <= 7; k++ {
		e := begin.AddDate(0, 0, k)
		if e.Weekday() == weekend {
			return begin, e
		}
	}
	panic("unreachable")
}
