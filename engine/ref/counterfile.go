// Package ref holds the independent reference models used as oracles:
// a reader and writer of the documented v1 counter-file layout, the
// documented upload-config semantics, calendar arithmetic and directory
// snapshots. They are written from the documentation and the property
// statements, not from the implementation, and are deliberately boring.
package ref

import (
	"bytes"
	"encoding/binary"
	"fmt"
	"sort"
	"strings"
)

const (
	CFPrefix   = "# telemetry/counter file v1\n"
	CFPage     = 16 * 1024
	CFBuckets  = 512
	CFUnit     = 32
	CFMaxName  = 4096
	CFMaxMeta  = 512
	cfHdrWord  = 28 // offset of the header-length word (prefix rounded up to 4)
	cfMetaOff  = 32
	cfDeadNext = 0xffffffff
)

// CFRecord is one record found in a counter file.
type CFRecord struct {
	Off   uint32
	Name  string // as stored
	Value uint64
	Next  uint32
	Tag   byte // top byte of the length word
}

// CounterFile is the decoded content of a counter file.
type CounterFile struct {
	HdrLen  uint32
	Meta    map[string]string
	MetaRaw string
	Limit   uint32
	Size    int
	Records []CFRecord        // reachable records in bucket order, chain order
	Values  map[string]uint64 // reachable stored name -> value
	Heads   map[int]uint32    // non-zero bucket heads
}

// FNV is the hash the format prescribes: 32-bit FNV-1a, folded, modulo the
// number of buckets.
func FNV(name string) uint32 {
	h := uint32(2166136261)
	for i := 0; i < len(name); i++ {
		h ^= uint32(name[i])
		h *= 16777619
	}
	return (h ^ (h >> 16)) % CFBuckets
}

func roundUp(x, unit uint32) uint32 { return (x + unit - 1) / unit * unit }

// HeaderFor returns the header bytes for the given metadata.
func HeaderFor(meta string) []byte {
	n := roundUp(uint32(cfMetaOff+len(meta)), CFUnit)
	hdr := make([]byte, n)
	copy(hdr, CFPrefix)
	binary.LittleEndian.PutUint32(hdr[cfHdrWord:], n)
	copy(hdr[cfMetaOff:], meta)
	return hdr
}

// Place is the documented placement rule: records are 32-byte aligned, and a
// record never reaches the end of a 16 KiB page (the last bytes of every page
// are reserved for extending the file).
func Place(hdrLen, limit uint32, nameLen int) (start, end uint32) {
	if limit == 0 {
		limit = hdrLen + 4 + 4*CFBuckets
	}
	n := roundUp(uint32(16+nameLen), CFUnit)
	start = roundUp(limit, CFUnit)
	if start/CFPage != (start+n)/CFPage {
		start = roundUp(limit, CFPage)
	}
	return start, start + n
}

// DecodeCounterFile reads data strictly: any deviation from the documented
// layout is an error. A nil error therefore means "well-formed".
func DecodeCounterFile(data []byte) (*CounterFile, error) {
	if len(data) < CFPage {
		return nil, fmt.Errorf("short file: %d bytes", len(data))
	}
	if len(data)%CFPage != 0 {
		return nil, fmt.Errorf("size %d is not a multiple of the page size", len(data))
	}
	if !bytes.HasPrefix(data, []byte(CFPrefix)) {
		return nil, fmt.Errorf("bad prefix")
	}
	cf := &CounterFile{Meta: map[string]string{}, Values: map[string]uint64{}, Heads: map[int]uint32{}, Size: len(data)}
	cf.HdrLen = binary.LittleEndian.Uint32(data[cfHdrWord:])
	if cf.HdrLen < cfMetaOff || cf.HdrLen%CFUnit != 0 || cf.HdrLen > cfMetaOff+CFMaxMeta+CFUnit {
		return nil, fmt.Errorf("bad header length %d", cf.HdrLen)
	}
	meta := data[cfMetaOff:cf.HdrLen]
	if i := bytes.IndexByte(meta, 0); i >= 0 {
		for _, b := range meta[i:] {
			if b != 0 {
				return nil, fmt.Errorf("non-zero byte after metadata terminator")
			}
		}
		meta = meta[:i]
	}
	if roundUp(uint32(cfMetaOff+len(meta)), CFUnit) != cf.HdrLen {
		return nil, fmt.Errorf("header length %d does not match metadata of %d bytes", cf.HdrLen, len(meta))
	}
	cf.MetaRaw = string(meta)
	for _, line := range strings.Split(cf.MetaRaw, "\n") {
		if line == "" {
			continue
		}
		i := strings.Index(line, ": ")
		if i < 0 {
			return nil, fmt.Errorf("metadata line %q without separator", line)
		}
		if _, dup := cf.Meta[line[:i]]; dup {
			return nil, fmt.Errorf("duplicate metadata key %q", line[:i])
		}
		cf.Meta[line[:i]] = line[i+2:]
	}
	tableEnd := cf.HdrLen + 4 + 4*CFBuckets
	cf.Limit = binary.LittleEndian.Uint32(data[cf.HdrLen:])
	if cf.Limit != 0 && (cf.Limit < tableEnd || cf.Limit%CFUnit != 0) {
		return nil, fmt.Errorf("bad limit %#x", cf.Limit)
	}
	if int64(cf.Limit) > int64(len(data)) {
		return nil, fmt.Errorf("limit %#x beyond file size %#x", cf.Limit, len(data))
	}
	type span struct{ lo, hi uint32 }
	var spans []span
	seenOff := map[uint32]bool{}
	for b := 0; b < CFBuckets; b++ {
		head := binary.LittleEndian.Uint32(data[cf.HdrLen+4+uint32(b)*4:])
		if head == 0 {
			continue
		}
		cf.Heads[b] = head
		for off := head; off != 0; {
			if off == cfDeadNext {
				return nil, fmt.Errorf("bucket %d: dead marker reachable", b)
			}
			if off%CFUnit != 0 || off < roundUp(tableEnd, CFUnit) || int64(off)+16 > int64(cf.Limit) {
				return nil, fmt.Errorf("bucket %d: record offset %#x out of range (limit %#x)", b, off, cf.Limit)
			}
			if seenOff[off] {
				return nil, fmt.Errorf("bucket %d: record %#x reachable twice (cycle or shared tail)", b, off)
			}
			seenOff[off] = true
			lw := binary.LittleEndian.Uint32(data[off+8:])
			nl := lw & 0x00ffffff
			if nl == 0 || nl > CFMaxName {
				return nil, fmt.Errorf("record %#x: name length %d", off, nl)
			}
			end := roundUp(off+16+nl, CFUnit)
			if int64(end) > int64(cf.Limit) {
				return nil, fmt.Errorf("record %#x: extends to %#x beyond limit %#x", off, end, cf.Limit)
			}
			if off/CFPage != end/CFPage {
				return nil, fmt.Errorf("record %#x-%#x reaches or crosses a page end", off, end)
			}
			name := string(data[off+16 : off+16+nl])
			if FNV(name) != uint32(b) {
				return nil, fmt.Errorf("record %#x %q in bucket %d, hashes to %d", off, trunc(name), b, FNV(name))
			}
			if _, dup := cf.Values[name]; dup {
				return nil, fmt.Errorf("name %q has two reachable records", trunc(name))
			}
			r := CFRecord{Off: off, Name: name, Value: binary.LittleEndian.Uint64(data[off:]), Next: binary.LittleEndian.Uint32(data[off+12:]), Tag: byte(lw >> 24)}
			cf.Records = append(cf.Records, r)
			cf.Values[name] = r.Value
			spans = append(spans, span{off, end})
			off = r.Next
		}
	}
	sort.Slice(spans, func(i, j int) bool { return spans[i].lo < spans[j].lo })
	for i := 1; i < len(spans); i++ {
		if spans[i].lo < spans[i-1].hi {
			return nil, fmt.Errorf("records %#x and %#x overlap", spans[i-1].lo, spans[i].lo)
		}
	}
	return cf, nil
}

func trunc(s string) string {
	if len(s) > 40 {
		return s[:40] + "..."
	}
	return s
}

// CFWriter builds counter files from the documented layout alone.
type CFWriter struct {
	Data   []byte
	HdrLen uint32
}

// NewCFWriter starts a one-page file with the given metadata.
func NewCFWriter(meta string) *CFWriter {
	hdr := HeaderFor(meta)
	w := &CFWriter{Data: make([]byte, CFPage), HdrLen: uint32(len(hdr))}
	copy(w.Data, hdr)
	return w
}

// MetaString renders metadata in the order the library writes it.
func MetaString(kv [][2]string) string {
	var b strings.Builder
	for _, p := range kv {
		b.WriteString(p[0] + ": " + p[1] + "\n")
	}
	b.WriteString("\n")
	return b.String()
}

func (w *CFWriter) limit() uint32 { return binary.LittleEndian.Uint32(w.Data[w.HdrLen:]) }

// Add appends a record (or adds to the existing record of that name) and
// returns its offset.
func (w *CFWriter) Add(name string, value uint64) uint32 {
	b := FNV(name)
	headOff := w.HdrLen + 4 + 4*b
	for off := binary.LittleEndian.Uint32(w.Data[headOff:]); off != 0; off = binary.LittleEndian.Uint32(w.Data[off+12:]) {
		nl := binary.LittleEndian.Uint32(w.Data[off+8:]) & 0xffffff
		if string(w.Data[off+16:off+16+nl]) == name {
			binary.LittleEndian.PutUint64(w.Data[off:], binary.LittleEndian.Uint64(w.Data[off:])+value)
			return off
		}
	}
	start, end := Place(w.HdrLen, w.limit(), len(name))
	for int(end) > len(w.Data) {
		w.Data = append(w.Data, make([]byte, CFPage)...)
	}
	binary.LittleEndian.PutUint32(w.Data[w.HdrLen:], end)
	binary.LittleEndian.PutUint64(w.Data[start:], value)
	binary.LittleEndian.PutUint32(w.Data[start+8:], uint32(len(name))|0xff000000)
	binary.LittleEndian.PutUint32(w.Data[start+12:], binary.LittleEndian.Uint32(w.Data[headOff:]))
	copy(w.Data[start+16:], name)
	binary.LittleEndian.PutUint32(w.Data[headOff:], start)
	return start
}

// Put32 overwrites a 32-bit word (for building damaged files).
func (w *CFWriter) Put32(off uint32, v uint32) {
	if int(off)+4 <= len(w.Data) {
		binary.LittleEndian.PutUint32(w.Data[off:], v)
	}
}

// Bytes returns a copy of the file image.
func (w *CFWriter) Bytes() []byte { return append([]byte(nil), w.Data...) }

// ExpandStack is the reference expansion of a stored stack-counter name:
// after the first line, each line is "<import path>.<function>:<location>";
// an import path written as a single double quote repeats the most recent
// explicit import path.
func ExpandStack(name string) string {
	if !strings.Contains(name, "\n") {
		return name
	}
	lines := strings.Split(name, "\n")
	last := ""
	have := false
	for i, l := range lines {
		if i == 0 {
			continue // the counter's own name, never a frame
		}
		j := strings.LastIndex(l, ".")
		if j <= 0 {
			continue
		}
		p := l[:j]
		if p == `"` {
			if have {
				lines[i] = last + l[j:]
			}
			continue
		}
		last, have = p, true
	}
	return strings.Join(lines, "\n")
}
