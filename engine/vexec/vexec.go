// Package vexec replaces os/exec in the rewritten root package: starting a
// child process is recorded instead of performed, so that the harness can
// assert whether, with which environment and how often a telemetry sidecar
// would have been launched, and can then run the child's entry point in an
// emulated process.
package vexec

import (
	"io"
	"os"
	"syscall"
)

// Spawn is one recorded process start.
type Spawn struct {
	Path string
	Args []string
	Env  []string
	Dir  string
}

// Spawns is the log of the current case.
var Spawns []Spawn

// Cmd mirrors the fields and methods of exec.Cmd that the repository uses.
type Cmd struct {
	Path        string
	Args        []string
	Env         []string
	Dir         string
	Stdin       io.Reader
	Stdout      io.Writer
	Stderr      io.Writer
	SysProcAttr *syscall.SysProcAttr

	pipeR, pipeW *os.File
}

func Command(name string, arg ...string) *Cmd {
	return &Cmd{Path: name, Args: append([]string{name}, arg...)}
}

// StdinPipe returns the write end of a real pipe (the repository converts
// it to *os.File).
func (c *Cmd) StdinPipe() (io.WriteCloser, error) {
	r, w, err := os.Pipe()
	if err != nil {
		return nil, err
	}
	c.pipeR, c.pipeW = r, w
	Pipes = append(Pipes, r, w)
	return w, nil
}

// Pipes collects the pipe ends created for the current case, to be closed by the harness.
var Pipes []*os.File

func (c *Cmd) Start() error {
	Spawns = append(Spawns, Spawn{Path: c.Path, Args: append([]string{}, c.Args...), Env: append([]string{}, c.Env...), Dir: c.Dir})
	return nil
}

func (c *Cmd) Run() error  { return c.Start() }
func (c *Cmd) Wait() error { return nil }

// Reset clears the log and closes the pipes of the previous case.
func Reset() {
	Spawns = nil
	for _, p := range Pipes {
		p.Close()
	}
	Pipes = nil
}
