// Package sched is the controlled scheduler and stateless depth-first
// explorer (engine E1 of /verif/DESIGN.md).
//
// The package is mapped into the repository as
// golang.org/x/telemetry/internal/verifshim/sched by a build overlay; it is
// never part of a normal build.
//
// Exactly one goroutine runs at any time: either the scheduler (the goroutine
// that called Run) or one harness thread that holds the token. Shim
// operations (vatomic, vsync, vos, ...) call Point before they take effect;
// Point parks the thread and gives the token back to the scheduler, which
// picks the next thread according to the choice sequence being explored.
// When no execution is in progress, or the caller is the scheduler itself
// (set-up code, oracles), Point and Choose are no-ops / defaults, so the
// rewritten repository code behaves exactly like the original.
package sched

import (
	"fmt"
	"runtime"
	"runtime/debug"
	"sort"
	"strings"
)

// Bounds limits the deviations from the default schedule in one execution.
type Bounds struct {
	Preempt int // switches away from a thread that could have continued
	Kill    int // emulated process kills
	Fault   int // non-default environment answers (Choose != 0)
}

func (b Bounds) String() string { return fmt.Sprintf("p%d/k%d/f%d", b.Preempt, b.Kill, b.Fault) }

type cost struct{ p, k, f int }

func (c cost) add(d cost) cost { return cost{c.p + d.p, c.k + d.k, c.f + d.f} }
func (c cost) within(b Bounds) bool {
	return c.p <= b.Preempt && c.k <= b.Kill && c.f <= b.Fault
}

// A decision is one point of an execution at which more than one
// continuation existed.
type decision struct {
	n     int    // number of options
	costs []cost // cost of each option (costs[0] is always zero)
	desc  []string
	key   uint64 // hash of the global state at a scheduling decision (0: not available, never pruned)
}

type killSentinel struct{}

// Thread is one harness thread.
type Thread struct {
	ID       int
	Name     string
	Killable bool

	wake    chan bool // true: run; false: unwind (killed)
	kind    string    // pending operation
	obj     uintptr
	enabled func() bool
	done    bool
	dead    bool
	started bool
	fn      func()

	Panic          any    // value of an escaped panic, if any
	PanicStack     string // stack at the panic
	killedByChoice bool
	yielding       bool   // parked in Yield: other enabled threads go first at no cost
	lastRun        int    // step at which the thread last ran (0: never)
	OpStart        int    // global step count when the thread's current API call began (see MarkOp)
	Obs            uint64 // rolling hash of everything the thread observed
	Steps          int
}

// Exec is one execution (one schedule) of a scenario.
type Exec struct {
	Threads []*Thread
	Scratch any // harness state for this execution

	// OnStep, if set, runs in scheduler context after every step.
	OnStep func(x *Exec)
	// StateKey, if set, contributes the shared state to the state hash.
	StateKey func() uint64

	MaxSteps   int
	AllowKill  bool
	prefix     []int
	Choices    []int
	decisions  []decision
	Log        []string // step log (only when Trace is set)
	Trace      bool
	parked     chan struct{}
	last       *Thread
	Steps      int
	LastKind   string // kind of the operation performed by the latest step
	Deadlock   bool
	Horizon    bool
	Diverged   string // non-empty: replay of the prefix did not match
	Violations []string
	states     map[uint64]struct{}
	lastState  uint64 // state hash after the latest step
	KeyStates  bool   // compute state hashes (needed for counting and for pruning)
}

var (
	cur    *Exec   // execution in progress
	active *Thread // thread holding the token; nil while the scheduler runs
)

// Active reports whether the caller is a harness thread under the scheduler.
func Active() bool { return active != nil }

// Current returns the running harness thread or nil.
func Current() *Thread { return active }

// CurrentExec returns the execution in progress or nil.
func CurrentExec() *Exec { return cur }

// Observe mixes a value the running thread has read into its history hash.
func Observe(v uint64) {
	if t := active; t != nil {
		t.Obs = (t.Obs ^ v) * 1099511628211
		t.Obs ^= t.Obs >> 29
	}
}

// Violate records an oracle failure detected inside a shim (for example a
// use of unmapped memory). The execution continues.
func Violate(msg string) {
	if x := cur; x != nil {
		for _, v := range x.Violations {
			if v == msg {
				return
			}
		}
		x.Violations = append(x.Violations, msg)
	}
}

// Point is a scheduling point: the calling thread is about to perform the
// operation (kind,obj).
func Point(kind string, obj uintptr) { PointIf(kind, obj, nil) }

// PointIf is a scheduling point for an operation that is enabled only while
// enabled() reports true (lock acquisition, once entry).
func PointIf(kind string, obj uintptr, enabled func() bool) {
	t := active
	if t == nil {
		return
	}
	if t.dead {
		panic(killSentinel{})
	}
	t.kind, t.obj, t.enabled = kind, obj, enabled
	active = nil
	cur.parked <- struct{}{}
	if ok := <-t.wake; !ok {
		t.dead = true
		active = t
		panic(killSentinel{})
	}
	// token is ours again (active was set by the scheduler)
}

// Yield is the scheduling point of a wait loop (runtime.Gosched, a spin on an atomic): the caller asks
// for other threads to run first. Switching away from a yielding thread is the default and costs
// nothing; letting the yielder continue although another thread could run costs one preemption, so a
// spin cannot be unrolled for free. A wait that never ends shows up as a horizon.
func Yield() {
	t := active
	if t == nil {
		return
	}
	t.yielding = true
	PointIf("yield", 0, nil)
}

// MarkOp records that the running thread begins a new API call now.
func MarkOp() {
	if t := active; t != nil && cur != nil {
		t.OpStart = cur.Steps
	}
}

// StepNow returns the number of steps executed so far in the current execution.
func StepNow() int {
	if cur != nil {
		return cur.Steps
	}
	return 0
}

// WasKilled reports whether t was killed by a scheduler choice (as opposed to
// finishing, panicking or being unwound at the end of the execution).
func WasKilled(t *Thread) bool { return t.killedByChoice }

// CheckDead unwinds the calling thread if it has been killed: a killed
// process must not perform any further effect, even from deferred calls.
func CheckDead() {
	if t := active; t != nil && t.dead {
		panic(killSentinel{})
	}
}

// Dead reports whether the calling thread has been killed (it is unwinding).
func Dead() bool { t := active; return t != nil && t.dead }

// Choose is an environment choice point with n options; option 0 is the
// default answer. Every non-default answer costs one fault.
func Choose(kind string, n int) int {
	t := active
	if t == nil || n <= 1 {
		return 0
	}
	if t.dead {
		panic(killSentinel{})
	}
	x := cur
	d := decision{n: n, costs: make([]cost, n)}
	for i := 1; i < n; i++ {
		d.costs[i] = cost{f: 1}
	}
	if x.Trace {
		d.desc = make([]string, n)
		for i := range d.desc {
			d.desc[i] = fmt.Sprintf("%s=%d", kind, i)
		}
	}
	c := x.decide(d)
	if x.Trace {
		x.Log = append(x.Log, fmt.Sprintf("T%d choose %s -> %d", t.ID, kind, c))
	}
	Observe(uint64(c) + 0x9e3779b97f4a7c15)
	return c
}

func (x *Exec) decide(d decision) int {
	i := len(x.decisions)
	x.decisions = append(x.decisions, d)
	c := 0
	if i < len(x.prefix) {
		c = x.prefix[i]
		if c >= d.n {
			if x.Diverged == "" {
				x.Diverged = fmt.Sprintf("decision %d: prefix wants option %d of %d", i, c, d.n)
			}
			c = 0
		}
	}
	x.Choices = append(x.Choices, c)
	return c
}

// Go registers a harness thread. It must be called from the scenario's
// set-up function.
func (x *Exec) Go(name string, fn func()) *Thread {
	t := &Thread{ID: len(x.Threads), Name: name, wake: make(chan bool), fn: fn, Killable: true, kind: "start"}
	x.Threads = append(x.Threads, t)
	return t
}

func (x *Exec) startThread(t *Thread) {
	t.started = true
	go func() {
		debug.SetPanicOnFault(true)
		defer func() {
			if r := recover(); r != nil {
				if _, ok := r.(killSentinel); !ok {
					t.Panic = r
					t.PanicStack = string(debug.Stack())
				}
			}
			t.done = true
			active = nil
			x.parked <- struct{}{}
		}()
		if ok := <-t.wake; !ok {
			t.dead = true
			return
		}
		t.fn()
	}()
}

func (t *Thread) isEnabled() bool {
	if t.done || t.dead {
		return false
	}
	return t.enabled == nil || t.enabled()
}

// kill makes t unwind without any of its remaining operations taking effect.
func (x *Exec) kill(t *Thread) {
	if t.done || t.dead {
		return
	}
	t.dead = true
	if !t.started {
		t.done = true
		return
	}
	active = t
	t.wake <- false
	<-x.parked
	active = nil
}

func (x *Exec) stateHash() uint64 {
	h := uint64(14695981039346656037)
	mix := func(v uint64) { h = (h ^ v) * 1099511628211; h ^= h >> 31 }
	for _, t := range x.Threads {
		mix(t.Obs)
		mix(uint64(t.Steps))
		for i := 0; i < len(t.kind); i++ {
			mix(uint64(t.kind[i]))
		}
		if t.done {
			mix(1)
		}
		if t.dead {
			mix(2)
		}
	}
	if x.StateKey != nil {
		mix(x.StateKey())
	}
	return h
}

// run drives the execution to completion.
func (x *Exec) run() {
	cur = x
	defer func() { cur = nil; active = nil }()
	for _, t := range x.Threads {
		x.startThread(t)
	}
	if len(x.Threads) > 0 {
		x.last = x.Threads[0]
	}
	for {
		// Collect options in canonical order.
		var opts []*Thread
		yielded := x.last != nil && x.last.yielding && x.last.isEnabled()
		if x.last != nil && x.last.isEnabled() && !yielded {
			opts = append(opts, x.last)
		}
		for _, t := range x.Threads {
			if t != x.last && t.isEnabled() {
				opts = append(opts, t)
			}
		}
		if yielded {
			// Fairness: the thread that has waited longest goes first (a waiter must not be starved by
			// other waiters that merely spin); the yielder comes last and simply continues if nobody
			// else can run.
			sort.SliceStable(opts, func(i, j int) bool { return opts[i].lastRun < opts[j].lastRun })
			opts = append(opts, x.last)
		}
		unfinished := false
		for _, t := range x.Threads {
			if !t.done && !t.dead {
				unfinished = true
			}
		}
		if !unfinished {
			return
		}
		if len(opts) == 0 {
			x.Deadlock = true
			x.unwindAll()
			return
		}
		if x.Steps >= x.MaxSteps {
			x.Horizon = true
			x.unwindAll()
			return
		}
		lastRunnable := x.last != nil && x.last.isEnabled() && !yielded
		canKill := x.AllowKill && x.last != nil && !x.last.done && !x.last.dead && x.last.Killable && x.last.Steps > 0
		n := len(opts)
		if canKill {
			n++
		}
		choice := 0
		if n > 1 {
			d := decision{n: n, costs: make([]cost, n)}
			for i, t := range opts {
				if t != x.last && lastRunnable {
					d.costs[i] = cost{p: 1}
				}
				if yielded && i > 0 {
					// at a yield only the hand-over to the longest-waiting thread is free
					d.costs[i] = cost{p: 1}
				}
			}
			if canKill {
				d.costs[n-1] = cost{k: 1}
			}
			if x.Trace {
				d.desc = make([]string, n)
				for i, t := range opts {
					d.desc[i] = fmt.Sprintf("run T%d(%s) %s", t.ID, t.Name, t.kind)
				}
				if canKill {
					d.desc[n-1] = fmt.Sprintf("kill T%d(%s)", x.last.ID, x.last.Name)
				}
			}
			if x.KeyStates {
				// The state between two steps, plus who ran last (it decides what a preemption is).
				d.key = x.lastState*1099511628211 ^ uint64(x.last.ID+1)
				if d.key == 0 {
					d.key = 1
				}
			}
			choice = x.decide(d)
		}
		if canKill && choice == n-1 {
			if x.Trace {
				x.Log = append(x.Log, fmt.Sprintf("KILL T%d(%s) before %s", x.last.ID, x.last.Name, x.last.kind))
			}
			x.last.killedByChoice = true
			x.kill(x.last)
			continue
		}
		t := opts[choice]
		if x.Trace {
			x.Log = append(x.Log, fmt.Sprintf("T%d(%s) %s %#x", t.ID, t.Name, t.kind, t.obj))
		}
		x.last = t
		t.yielding = false
		t.lastRun = x.Steps + 1
		x.LastKind = t.kind
		t.Steps++
		x.Steps++
		active = t
		t.wake <- true
		<-x.parked
		active = nil
		if x.states != nil || x.KeyStates {
			x.lastState = x.stateHash()
			if x.states != nil {
				x.states[x.lastState] = struct{}{}
			}
		}
		if x.OnStep != nil {
			x.OnStep(x)
		}
	}
}

func (x *Exec) unwindAll() {
	for _, t := range x.Threads {
		x.kill(t)
	}
}

// DescribeChoices renders the decisions of a traced execution.
func (x *Exec) DescribeChoices() []string {
	var out []string
	for i, d := range x.decisions {
		if x.Choices[i] != 0 && d.desc != nil {
			out = append(out, fmt.Sprintf("#%d: %s (instead of %s)", i, d.desc[x.Choices[i]], d.desc[0]))
		}
	}
	return out
}

// CallerSite returns a short description of the repository frames above the
// shim, for attributing a violation to a function.
func CallerSite(skip int) string {
	pcs := make([]uintptr, 24)
	n := runtime.Callers(skip+2, pcs)
	frs := runtime.CallersFrames(pcs[:n])
	var out []string
	for {
		fr, more := frs.Next()
		fn := fr.Function
		if i := strings.LastIndex(fn, "/"); i >= 0 {
			fn = fn[i+1:]
		}
		if !strings.Contains(fr.Function, "verifshim") && !strings.HasPrefix(fr.Function, "runtime.") && !strings.Contains(fn, "zzVerif") && !strings.Contains(fn, "TestVerif") {
			out = append(out, fn)
		}
		if !more || len(out) >= 4 {
			break
		}
	}
	return strings.Join(out, "<")
}
