package sched

import (
	"fmt"
	"time"
)

// Scenario describes a closed system to explore.
type Scenario struct {
	Name string
	// Setup builds fresh state and registers the threads of one execution.
	Setup func(x *Exec)
	// Check is the end-of-execution oracle; it returns violation messages
	// and an outcome hash (used only to count distinct outcomes).
	Check func(x *Exec) (violations []string, outcome uint64)
	// Teardown releases the resources of one execution.
	Teardown func(x *Exec)

	MaxSteps  int
	AllowKill bool
}

// Stats is what one exploration covered.
type Stats struct {
	Scenario    string
	Bounds      Bounds
	Executions  int64
	Transitions int64
	States      int // distinct (thread histories, shared state) hashes seen after a step
	Outcomes    map[uint64]int64
	Deadlocks   int64
	Horizons    int64
	Exhaustive  bool // the bounded space was enumerated completely
	MaxDepth    int  // longest choice sequence
	Violations  []Found
	Sample      []string // one traced schedule
}

// Found is one violating execution.
type Found struct {
	Scenario string
	Bounds   string
	Choices  []int
	Messages []string
	Steps    []string // traced step log
	Devs     []string // deviations from the default schedule
}

// Explorer enumerates all choice sequences of a scenario within bounds.
type Explorer struct {
	Sc       *Scenario
	Bounds   Bounds
	Deadline time.Time
	Shard    int // this worker's index
	NShards  int // number of workers (0 or 1: no sharding)
	MaxFound int // stop collecting after this many violating executions (default 20)
	// Prune cuts the expansion of an execution at the first scheduling decision whose global
	// state (thread histories + harness StateKey + deviations spent) was already expanded:
	// equal states have equal futures. Sound only if the scenario's StateKey covers every
	// shared location; harnesses cross-check pruned against unpruned runs.
	Prune  bool
	pruned map[uint64]struct{}
	Cut    int64 // expansions cut by pruning

	stats  Stats
	states map[uint64]struct{}
	capped bool
	// sigSeen de-duplicates violations by message set.
	sigSeen map[string]bool
}

// RunOnce executes the scenario with the given choice prefix.
func RunOnce(sc *Scenario, prefix []int, trace bool, states map[uint64]struct{}) *Exec {
	x := &Exec{prefix: prefix, Trace: trace, parked: make(chan struct{}), MaxSteps: sc.MaxSteps, AllowKill: sc.AllowKill, states: states, KeyStates: states != nil}
	if x.MaxSteps == 0 {
		x.MaxSteps = 20000
	}
	sc.Setup(x)
	x.run()
	return x
}

func (e *Explorer) one(prefix []int) *Exec {
	x := RunOnce(e.Sc, prefix, false, e.states)
	if x.Diverged != "" {
		panic(fmt.Sprintf("engine-nondeterminism: scenario %s prefix %v: %s", e.Sc.Name, prefix, x.Diverged))
	}
	e.stats.Executions++
	e.stats.Transitions += int64(x.Steps)
	if len(x.Choices) > e.stats.MaxDepth {
		e.stats.MaxDepth = len(x.Choices)
	}
	if x.Deadlock {
		e.stats.Deadlocks++
	}
	if x.Horizon {
		e.stats.Horizons++
	}
	viol, outcome := e.Sc.Check(x)
	viol = append(append([]string{}, x.Violations...), viol...)
	e.stats.Outcomes[outcome]++
	if e.Sc.Teardown != nil {
		e.Sc.Teardown(x)
	}
	if len(viol) > 0 {
		sig := fmt.Sprint(viol)
		if !e.sigSeen[sig] && len(e.stats.Violations) < e.MaxFound {
			e.sigSeen[sig] = true
			// Re-run traced to obtain the step log; it must reproduce.
			ch := append([]int{}, x.Choices...)
			tx := RunOnce(e.Sc, ch, true, nil)
			tv, _ := e.Sc.Check(tx)
			tv = append(append([]string{}, tx.Violations...), tv...)
			if e.Sc.Teardown != nil {
				e.Sc.Teardown(tx)
			}
			if fmt.Sprint(tv) != sig {
				panic(fmt.Sprintf("engine-nondeterminism: scenario %s choices %v: first run %v, replay %v", e.Sc.Name, ch, viol, tv))
			}
			e.stats.Violations = append(e.stats.Violations, Found{
				Scenario: e.Sc.Name, Bounds: e.Bounds.String(), Choices: ch, Messages: viol,
				Steps: tx.Log, Devs: tx.DescribeChoices(),
			})
		}
	}
	return x
}

func (e *Explorer) sharded() bool { return e.NShards > 1 }

// rec explores the subtree rooted at prefix. Work is split between workers
// at depth 2: every worker executes the (few) depth-1 nodes to learn their
// children, the node itself is counted and checked by one owner only.
func (e *Explorer) rec(prefix []int, depth, acc int, counted bool) {
	if e.capped {
		return
	}
	if !e.Deadline.IsZero() && time.Now().After(e.Deadline) {
		e.capped = true
		return
	}
	var x *Exec
	if counted {
		x = e.one(prefix)
	} else {
		x = RunOnce(e.Sc, prefix, false, nil)
		if e.Sc.Teardown != nil {
			e.Sc.Teardown(x)
		}
	}
	e.expand(x, len(prefix), depth, acc)
}

func (e *Explorer) expand(x *Exec, from int, depth, acc int) {
	base := cost{}
	for i := 0; i < from; i++ {
		base = base.add(x.decisions[i].costs[x.Choices[i]])
	}
	idx := 0
	spent := base
	for i := from; i < len(x.decisions); i++ {
		d := x.decisions[i]
		if e.Prune && d.key != 0 {
			k := d.key*1099511628211 ^ uint64(spent.p)<<40 ^ uint64(spent.k)<<48 ^ uint64(spent.f)<<56
			if _, dup := e.pruned[k]; dup {
				e.Cut++
				break // everything reachable from here was expanded from an equal state
			}
			e.pruned[k] = struct{}{}
		}
		for alt := 1; alt < d.n; alt++ {
			if !base.add(d.costs[alt]).within(e.Bounds) {
				continue
			}
			idx++
			counted := true
			if e.sharded() {
				switch depth {
				case 0:
					counted = idx%e.NShards == e.Shard
				case 1:
					if (acc*7+idx)%e.NShards != e.Shard {
						continue
					}
				}
			}
			p := make([]int, i+1)
			copy(p, x.Choices[:i])
			p[i] = alt
			e.rec(p, depth+1, idx, counted)
		}
		// choices after the prefix are defaults (cost zero)
	}
}

// Explore runs the exploration and returns its statistics.
func (e *Explorer) Explore() Stats {
	e.stats = Stats{Scenario: e.Sc.Name, Bounds: e.Bounds, Outcomes: map[uint64]int64{}}
	e.states = map[uint64]struct{}{}
	e.pruned = map[uint64]struct{}{}
	e.sigSeen = map[string]bool{}
	if e.MaxFound == 0 {
		e.MaxFound = 20
	}
	// Determinism self-check on the default schedule: two traced runs must
	// produce identical logs.
	a := RunOnce(e.Sc, nil, true, nil)
	av, ao := e.Sc.Check(a)
	if e.Sc.Teardown != nil {
		e.Sc.Teardown(a)
	}
	b := RunOnce(e.Sc, nil, true, nil)
	bv, bo := e.Sc.Check(b)
	if e.Sc.Teardown != nil {
		e.Sc.Teardown(b)
	}
	if fmt.Sprint(logKinds(a.Log), av, ao) != fmt.Sprint(logKinds(b.Log), bv, bo) {
		panic(fmt.Sprintf("engine-nondeterminism: scenario %s: default schedule differs between two runs:\n%v\n%v", e.Sc.Name, a.Log, b.Log))
	}
	e.stats.Sample = a.Log
	if len(e.stats.Sample) > 60 {
		e.stats.Sample = append(append([]string{}, a.Log[:60]...), fmt.Sprintf("... %d more steps", len(a.Log)-60))
	}

	// Root execution: owned by shard 0 for counting; every shard runs it to
	// enumerate the level-1 subtrees.
	root := RunOnce(e.Sc, nil, false, nil)
	if e.Shard == 0 || e.NShards <= 1 {
		if e.Sc.Teardown != nil {
			e.Sc.Teardown(root)
		}
		root = e.one(nil)
	} else if e.Sc.Teardown != nil {
		e.Sc.Teardown(root)
	}
	e.expand(root, 0, 0, 0)
	e.stats.States = len(e.states)
	e.stats.Exhaustive = !e.capped
	return e.stats
}

// logKinds strips addresses (which differ between runs) from a step log.
func logKinds(log []string) []string {
	out := make([]string, len(log))
	for i, s := range log {
		for j := len(s) - 1; j >= 0; j-- {
			if s[j] == ' ' {
				s = s[:j]
				break
			}
		}
		out[i] = s
	}
	return out
}

// Replay executes one recorded choice sequence with tracing.
func Replay(sc *Scenario, choices []int) (x *Exec, violations []string) {
	x = RunOnce(sc, choices, true, nil)
	v, _ := sc.Check(x)
	violations = append(append([]string{}, x.Violations...), v...)
	if sc.Teardown != nil {
		sc.Teardown(x)
	}
	return x, violations
}
