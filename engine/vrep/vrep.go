// Package vrep is the reporting side of every harness: it reads the run
// parameters the vcheck driver passes in the environment and writes one
// result file per worker, which the driver merges into the evidence file.
package vrep

import (
	"runtime/debug"
	"encoding/json"
	"fmt"
	"os"
	"sort"
	"strconv"
	"time"
)

// Violation is one failing element of the explored space.
type Violation struct {
	Sig    string `json:"sig"`    // stable class: oracle clause + site; matched against known_findings.jsonl
	Msg    string `json:"msg"`    // human-readable description
	Replay any    `json:"replay"` // everything needed to re-execute the case
}

// ScenarioStat is the coverage of one scenario / leg of a check.
type ScenarioStat struct {
	Name        string `json:"name"`
	Bound       string `json:"bound,omitempty"`
	Executions  int64  `json:"executions"`
	Transitions int64  `json:"transitions"`
	States      int64  `json:"states"`
	Outcomes    int64  `json:"distinct_outcomes"`
	Deadlocks   int64  `json:"deadlocks,omitempty"`
	Horizons    int64  `json:"horizons,omitempty"`
	Exhaustive  bool   `json:"exhaustive"`
	Note        string `json:"note,omitempty"`
}

// Result is what one worker covered.
type Result struct {
	Property    string           `json:"property"`
	Tier        string           `json:"tier"`
	Shard       int              `json:"shard"`
	NShards     int              `json:"nshards"`
	Evaluations int64            `json:"evaluations"`
	Transitions int64            `json:"transitions"`
	States      int64            `json:"states"`
	Validated   int64            `json:"traces_validated_against_impl"`
	Classes     map[string]int64 `json:"classes"` // oracle-relevant class -> number of cases in it
	Scenarios   []ScenarioStat   `json:"scenarios"`
	Violations  []Violation      `json:"violations"`
	Samples     []any            `json:"samples"`
	Exhaustive  bool             `json:"exhaustive"`
	Notes       []string         `json:"notes"`
	Rule        string           `json:"rule"`
	Assumptions []string         `json:"assumptions"`
	Internal    string           `json:"internal_error,omitempty"`
	WallS       float64          `json:"wall_s"`
	start       time.Time
}

// Params are the run parameters.
type Params struct {
	Tier     string
	Shard    int
	NShards  int
	Deadline time.Time // zero: none
	Replay   string    // path of a replay artefact, or ""
	Seed     int64
}

func atoi(s string, def int) int {
	if v, err := strconv.Atoi(s); err == nil {
		return v
	}
	return def
}

// Env reads the run parameters.
func Env() Params {
	p := Params{Tier: os.Getenv("VERIF_TIER"), Shard: atoi(os.Getenv("VERIF_SHARD"), 0), NShards: atoi(os.Getenv("VERIF_NSHARDS"), 1), Replay: os.Getenv("VERIF_REPLAY")}
	if p.Tier == "" {
		p.Tier = "quick"
	}
	if s := atoi(os.Getenv("VERIF_BUDGET_S"), 0); s > 0 {
		p.Deadline = time.Now().Add(time.Duration(s) * time.Second)
	}
	p.Seed = int64(atoi(os.Getenv("VERIF_SEED"), 0))
	return p
}

// Thorough reports whether the thorough tier was requested.
func (p Params) Thorough() bool { return p.Tier == "thorough" }

// Mine reports whether work item i belongs to this worker.
func (p Params) Mine(i int) bool { return p.NShards <= 1 || i%p.NShards == p.Shard }

// Expired reports whether the internal deadline has passed.
func (p Params) Expired() bool { return !p.Deadline.IsZero() && time.Now().After(p.Deadline) }

// New starts a result.
func New(property string, p Params) *Result {
	return &Result{Property: property, Tier: p.Tier, Shard: p.Shard, NShards: p.NShards, Classes: map[string]int64{}, Exhaustive: true, start: time.Now()}
}

// Class counts one case in an oracle-relevant class.
func (r *Result) Class(name string) { r.Classes[name]++ }

// Violate records a violation (at most 50 are kept per worker, one per sig+msg).
func (r *Result) Violate(sig, msg string, replay any) {
	for _, v := range r.Violations {
		if v.Sig == sig && v.Msg == msg {
			return
		}
	}
	n := 0
	for _, v := range r.Violations {
		if v.Sig == sig {
			n++
		}
	}
	if n >= 5 || len(r.Violations) >= 50 {
		return
	}
	r.Violations = append(r.Violations, Violation{Sig: sig, Msg: msg, Replay: replay})
}

// Sample keeps up to n samples.
func (r *Result) Sample(n int, v any) {
	if len(r.Samples) < n {
		r.Samples = append(r.Samples, v)
	}
}

// Note appends a note.
func (r *Result) Note(format string, args ...any) {
	r.Notes = append(r.Notes, fmt.Sprintf(format, args...))
}

var exitHooks []func()

// OnExit registers a function to run before Write exits the process.
func OnExit(f func()) { exitHooks = append(exitHooks, f) }

// Write stores the result where the driver expects it and exits: 0 when no
// violation was found by this worker, 1 otherwise, 2 on an internal error.
func (r *Result) Write() {
	for _, f := range exitHooks {
		f()
	}
	exitHooks = nil
	r.WallS = time.Since(r.start).Seconds()
	sort.Slice(r.Violations, func(i, j int) bool { return r.Violations[i].Sig < r.Violations[j].Sig })
	data, _ := json.MarshalIndent(r, "", " ")
	out := os.Getenv("VERIF_OUT")
	if out == "" {
		os.Stdout.Write(data)
		os.Stdout.WriteString("\n")
	} else if err := os.WriteFile(out, data, 0o644); err != nil {
		fmt.Fprintln(os.Stderr, "vrep:", err)
		os.Exit(2)
	}
	switch {
	case r.Internal != "":
		fmt.Fprintln(os.Stderr, "internal error:", r.Internal)
		os.Exit(2)
	case len(r.Violations) > 0:
		os.Exit(1)
	}
	os.Exit(0)
}

// Guard converts a harness panic into an internal error (exit 2).
func (r *Result) Guard() {
	if e := recover(); e != nil {
		r.Internal = fmt.Sprintf("%v\n%s", e, debug.Stack())
		r.Write()
	}
}

// Scratch returns a fresh scratch directory for this worker (on /dev/shm
// when available) and a function removing it.
func Scratch(tag string) (string, func()) {
	base := os.Getenv("VERIF_SCRATCH")
	if base == "" {
		base = "/dev/shm"
	}
	if fi, err := os.Stat(base); err != nil || !fi.IsDir() {
		base = os.TempDir()
	}
	dir, err := os.MkdirTemp(base, "verif-"+tag+"-")
	if err != nil {
		panic(err)
	}
	rm := func() { os.RemoveAll(dir) }
	OnExit(rm)
	return dir, rm
}
