// Package vsync mirrors sync.Mutex and sync.Once with modelled blocking:
// a thread whose next operation is Lock on a held mutex (or Do on a running
// Once) is disabled until the holder releases it, so deadlocks are visible
// to the scheduler instead of hanging the explorer.
package vsync

import (
	"runtime"
	"sync"
	"unsafe"

	"golang.org/x/telemetry/internal/verifshim/sched"
)

// PrivateLocks, if set, tells the shim that every mutex and once is private
// to one single-threaded emulated process: acquiring it is not a scheduling
// point.
var PrivateLocks bool

type Mutex struct {
	mu    sync.Mutex
	held  bool
	owner *sched.Thread
}

func (m *Mutex) Lock() {
	if !sched.Active() {
		m.mu.Lock()
		m.held = true
		return
	}
	if !PrivateLocks {
		sched.PointIf("lock", uintptr(unsafe.Pointer(m)), func() bool { return !m.held })
	} else if m.held {
		panic("vsync: private mutex is contended")
	}
	m.mu.Lock()
	m.held = true
	m.owner = sched.Current()
}

func (m *Mutex) TryLock() bool {
	if !sched.Active() {
		ok := m.mu.TryLock()
		if ok {
			m.held = true
		}
		return ok
	}
	sched.Point("trylock", uintptr(unsafe.Pointer(m)))
	if m.held {
		sched.Observe(0)
		return false
	}
	m.mu.Lock()
	m.held = true
	m.owner = sched.Current()
	sched.Observe(1)
	return true
}

func (m *Mutex) Unlock() {
	if sched.Dead() {
		// A killed process's deferred unlocks must not take effect.
		return
	}
	m.held = false
	m.owner = nil
	m.mu.Unlock()
}

// Held reports whether the mutex is held (for state keys and oracles).
func (m *Mutex) Held() bool { return m.held }

type Once struct {
	running bool
	done    bool
}

func (o *Once) Do(f func()) {
	if !sched.Active() {
		if o.done {
			return
		}
		o.running = true
		defer func() { o.running = false; o.done = true }()
		f()
		return
	}
	if !PrivateLocks {
		sched.PointIf("once", uintptr(unsafe.Pointer(o)), func() bool { return !o.running })
	}
	if o.done {
		sched.Observe(1)
		return
	}
	sched.Observe(0)
	o.running = true
	defer func() {
		if sched.Dead() {
			return
		}
		o.running = false
		o.done = true
	}()
	f()
}

// Gosched replaces runtime.Gosched: under the scheduler a wait loop yields to the other threads.
func Gosched() {
	if sched.Active() {
		sched.Yield()
		return
	}
	runtime.Gosched()
}
