#!/bin/bash
# Builds the verification framework from files on disk only (offline).
set -e
cd "$(dirname "$0")"
export GOFLAGS=-mod=mod GOPROXY=off GOSUMDB=off GOTOOLCHAIN=local
mkdir -p bin evidence
go build -o bin/vgen ./cmd/vgen
go build -o bin/vcheck ./cmd/vcheck
# Generate the overlay from /repo's working tree and pre-build every harness
# binary (warms the build cache; each check rebuilds from /repo anyway).
./bin/vcheck build-all
